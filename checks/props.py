# Registry: property id -> harnesses per tier, level text, assumptions, what is outside the claim.
from gosym.driver import Harness

COMMON_ASSUME = [
    'gosym engine: SSA interpreter + models of section 4 of DESIGN.md are the trusted base; a counterexample is only reported after it reproduced on the real build',
]

def c14(tier):
    return [
        Harness('VHarnessDecodeAny', 'cashu', ['cashu/zz_verif_cashu.go'], models=('std', 'crypto', 'json'), panic_mode='obligation',
                bounds='token = arbitrary string of any length; JSON/CBOR payload = havoc value of the static type with lists <= 2',
                must_reach=('decoded', 'rejected')),
    ]

def c02(tier):
    return [
        Harness('VHarnessAmountChecked', 'cashu', ['cashu/zz_verif_cashu.go'], bounds='<= 4 outputs, amounts full 64 bit', must_reach=('ok', 'overflow')),
    ]

PROPS = {
    'C14': dict(harnesses=c14, level='bounded symbolic verification of DecodeToken/accessors (panic obligations) and of the V3/V4 round trip over the structural JSON/CBOR model',
                assumptions=COMMON_ASSUME, outside=['fidelity of encoding/json and fxamacker/cbor themselves']),
    'C02': dict(harnesses=c02, level='bounded symbolic verification', assumptions=COMMON_ASSUME, outside=[]),
}
