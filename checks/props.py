# Registry: property id -> harnesses per tier, level text, assumptions, what is outside the claim.
from gosym.driver import Harness

COMMON_ASSUME = [
    'gosym engine: SSA interpreter + models of section 4 of DESIGN.md are the trusted base; a counterexample is only reported after it reproduced on the real build',
    'every string / byte slice the program takes the length of is shorter than 2^48 bytes',
]

def c14(tier):
    wide = [Harness('VHarnessTokenRoundTrip4', 'cashu', ['cashu/zz_verif_cashu.go'], models=('std', 'crypto', 'json'), panic_mode='obligation',
                bounds='as VHarnessTokenRoundTrip with exactly 4 proofs (every pattern of equal / different keyset ids, e.g. A B A B)',
                must_reach=('round-trip', 'not-built'), timeout_s=3000)] if tier == 'thorough' else []
    return wide + [
        Harness('VHarnessDecodeAny', 'cashu', ['cashu/zz_verif_cashu.go'], models=('std', 'crypto', 'json'), panic_mode='obligation',
                bounds='token = arbitrary string of any length; JSON/CBOR payload = havoc value of the static type with lists <= 2',
                must_reach=('decoded', 'rejected')),
        Harness('VHarnessTokenRoundTrip', 'cashu', ['cashu/zz_verif_cashu.go'], models=('std', 'crypto', 'json'), panic_mode='obligation',
                bounds='0..2 proofs with arbitrary amount / secret / witness / mint URL strings, id / C / e / s / r = hex of arbitrary byte strings (any length, also empty), DLEQ present or absent per proof, includeDLEQ both ways, V3 and V4, unit = Sat or a value that is no unit (must be refused by both constructors); the decoded unit string is compared too',
                must_reach=('round-trip', 'not-built')),
        Harness('VHarnessTokenRoundTrip3', 'cashu', ['cashu/zz_verif_cashu.go'], models=('std', 'crypto', 'json'), panic_mode='obligation',
                bounds='as VHarnessTokenRoundTrip with exactly 3 proofs (keyset ids equal or different in every pattern, e.g. A B A)',
                must_reach=('round-trip', 'not-built')),
    ]

def c02(tier):
    wide = [mint_h('VHarnessSwapC02Wide', 'swap: <= 3 inputs, <= 2 outputs; 1+1+1 arbitrary rows', must_reach=('swap-accepted', 'swap-rejected'), timeout_s=3000)] if tier == 'thorough' else []
    return wide + [mint_h('VHarnessMintTokensWrap', 'mint: PAID quote, exactly 4 outputs over {1, 2^61, 2^62} (64-bit wrap-around of the total)', must_reach=('wrap-accepted', 'wrap-rejected')),
            
        mint_h('VHarnessSwapC02', 'swap: <= 2 inputs, <= 2 outputs; 1+1+1 arbitrary rows', must_reach=('swap-accepted', 'swap-rejected')),
        mint_h('VHarnessMeltQuoteC02', 'melt quote: real invoice < 2^50 msat or garbage, optional MPP, 1 mint quote + 1 melt quote arbitrary rows', must_reach=('melt-quote-accepted', 'melt-quote-refused')),
        mint_h('VHarnessMeltC02', 'melt: 1..2 genuine inputs, quote amount/reserve/MPP symbolic (< 2^50), backend script <= 2 answers', must_reach=('payment-attempted', 'melt-no-payment')),
        Harness('VHarnessAmountChecked', 'cashu', ['cashu/zz_verif_cashu.go'], bounds='<= 4 outputs, amounts full 64 bit', must_reach=('ok', 'overflow')),
    ]

MINT_FILES = ['mint/zz_verif_env.go', 'mint/zz_verif_swap.go', 'mint/zz_verif_melt.go', 'mint/zz_verif_quotes.go', 'mint/zz_verif_minttokens.go', 'mint/zz_verif_query.go', 'mint/zz_verif_hook.go', 'mint/zz_verif_crash.go', 'mint/zz_verif_sched.go', 'mint/zz_verif_server.go', 'mint/zz_verif_keysets.go', 'mint/zz_verif_sigall.go', 'cashu/nuts/nut11/zz_verif_p2pk.go', 'mint/storage/sqlite/zz_verif_db.go']
MINT_MODELS = ('std', 'crypto', 'json', 'sql', 'mint', 'threads')
MINT_ASSUME = COMMON_ASSUME + [
    'keysets of the harness mint hold the denominations {1, 2, 2^63} only (the 60-entry tables are cut; the arithmetic kernels are checked at full width separately)',
    'input_fee_ppk < 2^32 per keyset',
    'hash_to_curve summarised as an injective uninterpreted function that never returns the identity; NUT-10 secrets excluded here (C12/C13)',
    'database/sql + SQLite modelled relationally (DESIGN.md 4.3); pre-state rows are arbitrary up to the stated count, written by this version (no NULL cells), y = Y(secret)',
]
def mint_h(name, bounds, **kw):
    kw.setdefault('summaries', ('h2c', 'nut10-none'))
    kw.setdefault('crypto_mode', 'euf')
    kw.setdefault('models', MINT_MODELS)
    return Harness(name, 'mint', MINT_FILES, bounds=bounds, **kw)

STORAGE_LISTS = Harness('VHarnessStorageLists', 'mint/storage/sqlite', ['mint/storage/sqlite/zz_verif_db.go'], models=('std', 'crypto', 'json', 'sql'), summaries=('h2c',), crypto_mode='euf', bounds='GetProofsUsed / GetPendingProofs / GetBlindSignatures with a list of 1, 1000 or 1001 distinct keys over 1+1+1 arbitrary rows (the stored key may equal any position of the list)', must_reach=('looked-up', 'long-list'))
SWAP_FAULT = mint_h('VHarnessSwapC01Fault', 'swap: 1 input, 1 output, every field free; 1 proof + 1 pending + 1 blind_signatures arbitrary rows; a storage error injected at any one storage call of the swap (position symbolic): an accepted swap still never takes a spent or locked input', sched=True, must_reach=('swap-accepted', 'swap-rejected', 'struck'))
RACE_MELT_MELT = mint_h('VHarnessRaceMeltMelt', '2 concurrent melts (different quotes) of the same genuine proof, schedule symbolic at storage / Lightning call granularity, <= 2 pre-emptions, backend answers scripted symbolically', sched=True, must_reach=('joined', 'one-honoured'))
def c01(tier):
    wide = [mint_h('VHarnessSwapC01Wide', 'swap: <= 2 inputs, <= 2 outputs, every field free; 2 proofs + 2 pending + 2 blind_signatures arbitrary rows', must_reach=('swap-accepted', 'swap-rejected'), timeout_s=3000),
            mint_h('VHarnessRaceSwapSwap3', '2 concurrent swaps of the same genuine proof, <= 3 pre-emptions', sched=True, must_reach=('joined', 'one-honoured'), timeout_s=3000),
            mint_h('VHarnessRaceSwapMelt3', 'swap and melt of the same genuine proof concurrently, <= 3 pre-emptions', sched=True, must_reach=('joined', 'one-honoured'), timeout_s=3000)] if tier == 'thorough' else []
    return wide + [
        mint_h('VHarnessRaceSwapSwap', '2 concurrent swaps of the same genuine proof, schedule symbolic at storage-call granularity, <= 2 pre-emptions', sched=True, must_reach=('joined', 'one-honoured')),
        mint_h('VHarnessRaceSwapMelt', 'swap and melt of the same genuine proof concurrently, schedule symbolic, <= 2 pre-emptions', sched=True, must_reach=('joined', 'one-honoured')),
        RACE_MELT_MELT, STORAGE_LISTS,
        SWAP_FAULT,mint_h('VHarnessSwapC01', 'swap: <= 2 inputs, <= 1 output, every field free; 2 proofs + 1 pending + 1 blind_signatures arbitrary rows',
                   must_reach=('swap-accepted', 'swap-rejected')),
        mint_h('VHarnessMeltC05', 'melt + 1 poll with a scripted backend (<= 3 answers): the inputs of a melt whose payment may still settle stay locked - released only after a definitive failure (else they could be spent a second time)', must_reach=('poll-1',))]

def c03(tier):
    wide = [mint_h('VHarnessRaceMintMint3', '2 concurrent mint requests with different outputs on one PAID quote, <= 3 pre-emptions', sched=True, must_reach=('joined',), timeout_s=3000)] if tier == 'thorough' else []
    return wide + [
        mint_h('VHarnessRaceMintMint', '2 concurrent mint requests with different outputs on one PAID quote, schedule symbolic, <= 2 pre-emptions', sched=True, must_reach=('joined',)),
        mint_h('VHarnessRaceMintWatcher', 'mint request + real invoice watcher (checkInvoicePaid) + second mint request, schedule symbolic, <= 2 pre-emptions', sched=True, must_reach=('joined',)),mint_h('VHarnessMintTokensC03', 'mint: quote in any state, optional NUT-20 lock, <= 2 free outputs, 6 signature variants, 1 arbitrary blind_signatures row',
                   must_reach=('mint-accepted', 'mint-rejected')),
        mint_h('VHarnessFaultMeltInternalC03', 'melt settled internally against an UNPAID mint quote of the same invoice; storage error at any one storage call or a failing invoice lookup (position symbolic); then a mint request on that quote', sched=True, must_reach=('struck', 'not-struck', 'settled-internally')),
        mint_h('VHarnessMintTokensWrap', 'mint: PAID unlocked quote of arbitrary amount, exactly 4 well-formed outputs over the denominations {1, 2^61, 2^62} (totals up to 2^64: 64-bit wrap-around)', must_reach=('wrap-accepted', 'wrap-rejected'))]

def c06(tier):
    kw = dict(panic_mode='obligation')
    wide = [mint_h('VHarnessSwapC06Wide', 'swap: <= 3 inputs (genuine or free), <= 2 free outputs; 1+1+1 arbitrary rows', must_reach=('swap-accepted', 'swap-rejected'), timeout_s=3000, **kw)] if tier == 'thorough' else []
    return wide + [
        mint_h('VHarnessSwapC06', 'swap: <= 2 inputs (genuine or free), <= 2 free outputs; 1+1+1 arbitrary rows', must_reach=('swap-accepted', 'swap-rejected'), **kw),
        mint_h('VHarnessMintTokensC06', 'mint: quote in any state, <= 2 free outputs, 6 signature variants', must_reach=('mint-accepted', 'mint-rejected'), **kw),
        mint_h('VHarnessMeltC06', 'melt: 1..2 genuine inputs, scripted backend <= 2 answers', must_reach=('melt-no-payment',), **kw),
        mint_h('VHarnessMintQuoteC06', 'mint quote: arbitrary amount/unit/limits', must_reach=('mint-quote-accepted', 'mint-quote-refused'), **kw),
        mint_h('VHarnessMeltQuoteC06', 'melt quote: real invoice or garbage, optional MPP', must_reach=('melt-quote-accepted', 'melt-quote-refused'), **kw),
        mint_h('VHarnessQueryC06', 'checkstate / restore: 0..2 arbitrary entries; 2+1+2 arbitrary rows', must_reach=('checkstate-ok', 'restore-ok'), **kw),
        mint_h('VHarnessSigAllSwapP2PK', 'melt of a genuine SIG_ALL P2PK input (refused: whole-database comparison), then its swap', summaries=('h2c', 'nut10'), must_reach=('helpers-accepted', 'unsigned-rejected', 'mixed-rejected')),
        n11_h('VHarnessP2PKTagsTotal', 'ParseP2PKTags on 0..2 tags of 0..3 elements, tag name one of the five known names or another string, every other element an arbitrary string: no panic', panic_mode='obligation', must_reach=('parsed', 'rejected')),
    ]
def c15(tier):
    wide = [mint_h('VHarnessQueryC15Wide', 'checkstate / restore: 0..3 arbitrary entries; 2 spent + 1 pending + 2 signature arbitrary rows', must_reach=('checkstate-ok', 'restore-ok'), timeout_s=3000)] if tier == 'thorough' else []
    return wide + [
        mint_h('VHarnessQueryC15', 'checkstate / restore: 0..2 arbitrary entries; 2 spent + 1 pending + 2 signature arbitrary rows', must_reach=('checkstate-ok', 'restore-ok')),
        mint_h('VHarnessFaultQueryC15', 'restore / checkstate of 1..2 arbitrary entries over 1 spent + 2 signature arbitrary rows with a storage error injected at any one storage call (position symbolic)', sched=True, must_reach=('restore-struck', 'restore-answered', 'checkstate-struck', 'checkstate-answered')),
        STORAGE_LISTS,
        mint_h('VHarnessSwapC15', 'swap then checkstate + restore: <= 2 inputs, <= 2 outputs', must_reach=('swap-accepted',)),
        mint_h('VHarnessMeltC05', 'melt of 1 input carrying an arbitrary witness + 1 poll (quote state or checkstate) with a scripted backend (<= 3 answers), then a final state check: state and witness reported for every path the input took', must_reach=('poll-1',)),
    ]
def c16(tier):
    wide = [mint_h('VHarnessMintQuoteC16Wide', 'mint quote: amount/limits full 64 bit; ledger of 2 signature rows + 1 spent row (total issued < 2^62)', must_reach=('mint-quote-accepted', 'mint-quote-refused'), timeout_s=1800)] if tier == 'thorough' else []
    return wide + [
        mint_h('VHarnessMintInfoC16', 'info endpoint, balance and per-keyset totals over an arbitrary ledger of 1 signature row + 1 spent row (2 keysets, total issued < 2^62), asked before and after one more spend or issuance of an arbitrary amount; maximum balance arbitrary 64 bit', must_reach=('info-before', 'spent-more', 'issued-more')),
        mint_h('VHarnessMintQuoteC16', 'mint quote: amount/limits full 64 bit; ledger of 1 signature row + 1 spent row (total issued < 2^62)', must_reach=('mint-quote-accepted', 'mint-quote-refused')),
        mint_h('VHarnessMeltQuoteC16', 'melt quote: invoice < 2^50 msat, optional MPP, melt limit full 64 bit', must_reach=('melt-quote-accepted', 'melt-quote-refused')),
    ]

def c07(tier):
    kw = dict(sched=True)
    hs = []
    for op, b in (('Swap', '1 genuine input, 1 output'), ('Mint', 'PAID quote, 1 output'), ('Melt', '1 genuine input, backend script <= 2 answers'),
                  ('MeltInternal', '1 genuine input, melt quote and UNPAID mint quote share one invoice (internal settlement), follow-up mint request'),
                  ('Poll', 'PENDING quote with 1 locked input, 1 backend answer'), ('Rotate', 'one stored keyset, arbitrary new fee')):
        hs.append(mint_h('VHarnessCrash' + op, op + ': ' + b + '; crash before any one of its storage / Lightning calls (position symbolic), restart, follow-up probes', must_reach=('struck', 'not-struck'), **kw))
        hs.append(mint_h('VHarnessFault' + op, op + ': ' + b + '; storage error injected at any one of its storage calls (position symbolic), follow-up probes', must_reach=('struck', 'not-struck'), **kw))
    return hs
def c05(tier):
    hs = [mint_h('VHarnessMeltC05', 'melt + 1 poll: 1 genuine input, quote amount/reserve/MPP symbolic, backend script <= 3 answers (status symbolic, error kind enumerated), poll through quote state or checkstate', must_reach=('poll-1',))]
    hs.append(RACE_MELT_MELT)
    hs.append(SWAP_FAULT)
    if tier == 'thorough':
        hs.append(mint_h('VHarnessMeltC05Polls', 'melt + 2 polls: backend script <= 4 answers', must_reach=('poll-2',), timeout_s=1800))
    return hs

N11_FILES = ['cashu/nuts/nut11/zz_verif_p2pk.go', 'cashu/nuts/nut14/zz_verif_htlc.go']
def n11_h(name, bounds, **kw):
    kw.setdefault('summaries', ('nut10',))
    kw.setdefault('crypto_mode', 'euf')
    return Harness(name, 'cashu/nuts/nut11', N11_FILES, models=('std', 'crypto', 'json'), bounds=bounds, **kw)
NUT10 = Harness('VHarnessNut10Deserialize', 'cashu/nuts/nut10', ['cashu/nuts/nut10/zz_verif_nut10.go'], models=('std', 'crypto', 'json'), panic_mode='obligation',
                 bounds='real DeserializeSecret / SerializeSecret on ["kind", {nonce, data, tags}] with kind P2PK / HTLC / other, arbitrary nonce and data strings, 0..2 tags of 0..2 arbitrary strings: conformance with the injective-constructor summary the other harnesses use',
                 must_reach=('deserialised',))
def c12(tier):
    hs = [n11_h('VHarnessP2PKSound', 'lock: n_sigs 0..3, 0..1 co-signers, 0..1 refund keys, locktime absent/past/future (symbolic), sigflag any; witness: JSON with 0..3 signatures (garbage / by any lock key or a foreign key / right or wrong message / two nonces) or garbage text',
                must_reach=('accepted', 'rejected')),
          n11_h('VHarnessP2PKComplete', 'canonical witness of AddSignatureToInputs for every lock with n_sigs <= 1, 0..2 co-signers, 0..1 refund keys, any locktime', must_reach=('canonical-accepted',)),
          n11_h('VHarnessSigAllPosition', '1..3 inputs, each plain / SIG_INPUTS / SIG_ALL', must_reach=('checked',))]
    hs.append(NUT10)
    hs.append(mint_h('VHarnessSigAllSwapP2PK', 'mint swap/melt with a SIG_ALL P2PK input (n_sigs <= 1, <= 1 co-signer), optionally behind a plain input; outputs signed by the helper / unsigned / signed by a foreign key', summaries=('h2c', 'nut10'), must_reach=('helpers-accepted', 'unsigned-rejected', 'mixed-rejected')))
    if tier == 'thorough':
        hs.append(n11_h('VHarnessP2PKSoundWide', 'as VHarnessP2PKSound with n_sigs 0..3, 0..2 co-signers, 0..2 refund keys, 0..3 signatures', must_reach=('accepted', 'rejected'), timeout_s=3000))
    return hs
def n14_h(name, bounds, **kw):
    kw.setdefault('summaries', ('nut10',))
    kw.setdefault('crypto_mode', 'euf')
    return Harness(name, 'cashu/nuts/nut14', N11_FILES, models=('std', 'crypto', 'json'), bounds=bounds, **kw)
def c13(tier):
    hs = [n14_h('VHarnessHTLCSound', 'HTLC: hash well-formed/short/garbage, preimage right/other/non-hex/empty; lock n_sigs 0..2, 0..1 listed keys, 0..1 refund keys, any locktime; 0..2 signatures', must_reach=('accepted', 'rejected')),
          n14_h('VHarnessHTLCComplete', 'canonical witness of AddWitnessHTLC for every lock with n_sigs <= 1, 0..2 listed keys, before the locktime', must_reach=('canonical-accepted',))]
    hs.append(NUT10)
    hs.append(mint_h('VHarnessSigAllSwapHTLC', 'mint swap/melt with a SIG_ALL HTLC input (n_sigs = 1, 1 listed key), optionally behind a plain input; outputs carry the helper witness / none / a foreign signature', summaries=('h2c', 'nut10'), must_reach=('helpers-accepted', 'unsigned-rejected', 'mixed-rejected')))
    if tier == 'thorough':
        hs.append(n14_h('VHarnessHTLCSoundWide', 'as VHarnessHTLCSound with n_sigs 0..2, 0..2 keys, 0..2 refund keys, 0..2 signatures', must_reach=('accepted', 'rejected'), timeout_s=3000))
    return hs
P2PK_ASSUME = COMMON_ASSUME + [
    'Schnorr signatures as a term algebra: a signature verifies iff it was made by that key over that hash (unforgeability assumed); distinct (key, hash, nonce) give distinct signatures',
    'keys named by one lock are pairwise distinct (stated in the property design: a lock naming a key twice is outside the claim)',
    'clock: the locktime is at least 10 s away from now, a harness run takes < 5 s',
    'nut10 (de)serialisation summarised as an injective constructor (DESIGN.md 4.6)']

def c04(tier):
    return [mint_h('VHarnessVerifyProofs', '1 proof: genuine (keyset / denomination symbolic) / arbitrary / 7 single-field mutation classes of a genuine proof (amount, keyset id, C of another proof, other C, parity bit of C, secret, oversize secret) + the amount mutation in second position behind a genuine input; 2 keysets x 3 denominations', must_reach=('genuine', 'mutated'))]
def c09(tier):
    F = ['crypto/zz_verif_bdhke.go', 'crypto/zz_verif_derive.go']
    return [mint_h('VHarnessSignAndFees', '1 arbitrary output against 2 keysets; fee of 0..3 inputs over both keysets, ppk < 2^32', must_reach=('signed', 'refused')),
            mint_h('VHarnessLoadMint', 'fresh start, restart with/without rotation, runtime rotation, restart: fees symbolic (< 4096), all 60 keys of every keyset compared', summaries=('h2c', 'nut10-none', 'loadmint-env'), must_reach=('done',), timeout_s=1200),
            Harness('VHarnessGenerateKeyset', 'crypto', F, models=('std', 'crypto', 'json'), crypto_mode='euf', bounds='every 32-byte seed, every derivation index < 2^31; all 60 keys and the id', must_reach=('done',))]
W_FILES = ['wallet/zz_verif_env.go', 'wallet/zz_verif_send.go', 'wallet/zz_verif_p2pkkey.go', 'wallet/zz_verif_flows.go']
def w_h(name, bounds, **kw):
    kw.setdefault('summaries', ('h2c', 'dleq'))
    kw.setdefault('crypto_mode', 'euf')
    return Harness(name, 'wallet', W_FILES, models=('std', 'crypto', 'json', 'threads', 'wallet'), bounds=bounds, **kw)
WALLET_ASSUME = COMMON_ASSUME + [
    'wallet store modelled at the storage.WalletDB interface by an in-memory implementation keyed as bolt.go keys its buckets (bolt.go itself is outside)',
    'the mint is an honest-contract fake behind wallet/client at the HTTP level (fee rule, double-spend check, signs with DLEQ); the real client.go JSON (un)marshalling is executed',
    'denominations 2^0..2^7; held proofs have concrete distinct secrets',
    'group operations uninterpreted with cancellation instances; DLEQ generation/verification summarised as constructor/recogniser (its algebra is C10)',
]
def c18(tier):
    hs = [w_h('VHarnessSelect', 'offline selection kernel: 1..3 held proofs of 2^0..2^4 on one keyset, ppk in {0,100,250,500,1000,2000}, every amount in 1..balance', must_reach=('selected', 'selection-failed')),
          w_h('VHarnessSend', 'Send end to end (selection, swap at the fake mint, change): 1..2 held proofs of 2^0..2^3 on active/inactive keysets, every ppk pair of the set, every amount, fees on/off', must_reach=('sent',), timeout_s=900),
          w_h('VHarnessSendReloaded', 'Send end to end after a wallet restart (mint / keyset view rebuilt from the store by the real loadWalletMints): 1..2 held proofs of 2^0..2^2 on active/inactive keysets, ppk in {0,100,1000} per keyset, every amount, fees on/off', must_reach=('sent', 'send-failed'), timeout_s=900),
          w_h('VHarnessSendMixed3', 'Send end to end: exactly 3 held proofs of 2^0..2^2, the first on the inactive keyset and the other two on the active one, ppk in {0,1000} per keyset, every amount, fees on/off', must_reach=('sent',), timeout_s=1500)]
    if tier == 'thorough':
        hs += [w_h('VHarnessSelectWide', 'selection kernel: 1..4 proofs of 2^0..2^5', must_reach=('selected',), timeout_s=3000),
               w_h('VHarnessSendWide', 'Send end to end: 1..3 proofs of 2^0..2^4', must_reach=('sent',), timeout_s=3000)]
    return hs
def c19(tier):
    more = [w_h('VHarnessWalletCrashRestoreMelt', 'holding one deterministic proof of 8 (ppk 100): melt 1..3 (reserve 1, paid or failed) killed before any one of its storage or HTTP calls (position symbolic) or not at all; then restore from the mnemonic into an empty store', sched=True, must_reach=('struck', 'not-struck', 'restored-after-crash'), summaries=('h2c', 'dleq', 'padd-inj'), timeout_s=1800),
            w_h('VHarnessWalletCrashRestoreReceive', 'holding one deterministic proof of 8 (ppk 100): receive of a foreign token of 4 killed before any one of its storage or HTTP calls (position symbolic) or not at all; then restore from the mnemonic into an empty store', sched=True, must_reach=('struck', 'not-struck', 'restored-after-crash'), summaries=('h2c', 'dleq', 'padd-inj'), timeout_s=1800),
            w_h('VHarnessWalletCrashRestoreMint', 'holding one deterministic proof of 8 (ppk 100): mint of a paid quote of 3 killed before any one of its storage or HTTP calls (position symbolic) or not at all; then restore from the mnemonic into an empty store', sched=True, must_reach=('struck', 'not-struck', 'restored-after-crash'), summaries=('h2c', 'dleq', 'padd-inj'), timeout_s=1800)] if tier == 'thorough' else []
    return more + [w_h('VHarnessWalletCrashRestore', 'holding one deterministic proof of 8 (ppk 100): send 1..2 (fees included, through a swap) killed before any one of its storage or HTTP calls (position symbolic) or not at all; then restore from the mnemonic into an empty store; both keysets scanned', sched=True, must_reach=('struck', 'not-struck', 'restored-after-crash'), summaries=('h2c', 'dleq', 'padd-inj'), timeout_s=1800),
            w_h('VHarnessRestoreContinue', 'restore (one signed output) from the mnemonic, then the restored store opened as LoadWallet does (loadWalletMints + getActiveKeyset) against a mint with ppk in {0,100,1000}: the counter stays past the signed outputs', must_reach=('continued',), summaries=('h2c', 'dleq', 'padd-inj'), timeout_s=1800),
            w_h('VHarnessWalletReceive', 'receive a token of the own mint: 1..2 proofs of 2^0..2^3, ppk in {0,100,1000}, stored counter symbolic < 2^30', must_reach=('received', 'receive-failed')),
            w_h('VHarnessWalletMint', 'mint tokens: stored counter symbolic (< 2^30), quote amount 1..11, mint signs or refuses', must_reach=('minted', 'mint-failed')),
            w_h('VHarnessWalletMintThenSend', 'holding one deterministic proof of 8: send 1..5 through a swap, fees included or not, ppk in {0,100,1000}', must_reach=('sent',)),
            w_h('VHarnessRestoreDense', 'restore from the mnemonic: the first three 100-output batches each hold a signed output; both keysets scanned; blinded messages of distinct (secret, r) pairs assumed distinct', must_reach=('restored',), summaries=('h2c', 'dleq', 'padd-inj'), timeout_s=1800),
            w_h('VHarnessRestore', 'restore from the mnemonic: signed pattern over the first 4 batches of 100 outputs (2^4 patterns), both keysets scanned; blinded messages of distinct (secret, r) pairs assumed distinct', must_reach=('restored',), summaries=('h2c', 'dleq', 'padd-inj'), timeout_s=1800)]
def c08(tier):
    return [w_h('VHarnessWalletReceiveDLEQ', 'receive a token of 1..2 genuine proofs of 2^0..2^2 that carry DLEQ data (e, s, r) or not, plain or P2PK-locked to the wallet key (witness attached by the wallet), ppk in {0,1000}', summaries=('h2c', 'dleq', 'nut10'), must_reach=('received', 'received-locked')),
            w_h('VHarnessWalletReceive', 'receive a token of the own mint: 1..2 proofs of 2^0..2^3, ppk in {0,100,1000}, stored counter symbolic < 2^30', must_reach=('received', 'receive-failed')),
            w_h('VHarnessWalletMint', 'mint tokens', must_reach=('minted',)),
            w_h('VHarnessWalletMintThenSend', 'holding one deterministic proof of 8 (stored with DLEQ e,s,r): send 1..5 through a swap', must_reach=('sent',)),
            w_h('VHarnessWalletMelt', 'melt: 1..2 held proofs with/without stored DLEQ data, each payment outcome', must_reach=('melt-outcome-0',))]
def c17(tier):
    more = [w_h('VHarnessWalletMeltLostWide', 'as VHarnessWalletMeltLost with amount 1..6 and reserve 0..2', must_reach=('lost-melt-reconciled', 'lost-melt-retried', 'melt-resolved'), timeout_s=3000),
            w_h('VHarnessSendC17Fees', 'send: 1..2 held proofs of 2^0..2^3 on the active / inactive keyset with independent fees from {0,100,1000}, amount symbolic, fees included or not: conservation and exact fee payment', must_reach=('sent', 'send-failed'))] if tier == 'thorough' else []
    return more + [w_h('VHarnessSendC17', 'send: 1..2 held proofs of 2^0..2^2 on the active / inactive keyset, 100 ppk on both, amount symbolic, fees included or not: conservation and exact fee payment', must_reach=('sent', 'send-failed')),
            w_h('VHarnessWalletReceive', 'receive a token of the own mint: 1..2 proofs of 2^0..2^3, ppk in {0,100,1000}, stored counter symbolic < 2^30', must_reach=('received', 'receive-failed')),
            w_h('VHarnessWalletReclaim', 'reclaim / remove-spent: 1..2 pending proofs of 2^0..2^2, each handed out or locked in a melt, each UNSPENT / SPENT / PENDING at the mint, ppk in {0,1000}', must_reach=('reconciled-0', 'reconciled-1')),
            w_h('VHarnessWalletMeltLost', 'melt: 1..2 held proofs of 2^0..2^2, amount 1..4, reserve 0..1 of which the payment uses any part (the rest comes back as NUT-08 change), ppk in {0,1000}, outcome paid/pending/failed, pending then settled either way; with or without a transport fault on POST /v1/melt/bolt11 (request lost before the mint saw it / response lost after the mint acted, each payment outcome), then a state check and, if still unpaid, a retry', must_reach=('lost-melt-reconciled', 'lost-melt-retried', 'melt-outcome-0', 'melt-outcome-1', 'melt-outcome-2', 'melt-resolved')),
            w_h('VHarnessWalletMint', 'mint tokens', must_reach=('minted',)),
            w_h('VHarnessWalletMintThenSend', 'holding one deterministic proof of 8: send 1..5 through a swap', must_reach=('sent',))]
def c20(tier):
    kw = dict(models=MINT_MODELS + ('http',))
    return [mint_h('VHarnessServerSwap', 'POST /v1/swap handler with hand-built JSON: 1 input (genuine or arbitrary), 1 arbitrary output, 1 arbitrary spent row; replay and two near-replays', must_reach=('swap-200', 'swap-refused'), **kw),
            mint_h('VHarnessServerMint', 'POST /v1/mint/bolt11 handler with hand-built JSON: stored quote in any state (or none), arbitrary quote id in the request, 1 arbitrary output, backend invoice lookup settled / unsettled / failing; replay', must_reach=('mint-200', 'mint-refused', 'mint-backend-failure'), **kw),
            mint_h('VHarnessServerFaults', 'each of the 9 quote / mint / swap / melt / checkstate / restore handlers with a well-formed request; a storage error injected at any one storage call of the operation (position symbolic) or a failing invoice lookup; the invoice watcher goroutine started by a mint quote request takes no part', sched=True, go_mode='ignore-all', must_reach=('failure-reported', 'answered-200', 'no-failure'), **kw),
            mint_h('VHarnessServerCheckstate', 'POST /v1/checkstate with hand-built JSON: 1..2 arbitrary Ys over 1 arbitrary spent row + 1 arbitrary pending row (arbitrary witnesses)', must_reach=('checkstate-200',), **kw),
            mint_h('VHarnessServerKeysCache', 'GET /v1/keys then GET /v1/keys/{id} for an arbitrary id string, twice', must_reach=('known-keyset', 'unknown-keyset'), **kw),
            mint_h('VHarnessServerQuoteStates', 'GET mint / melt quote state for a stored quote in every state', must_reach=('mint-quote-state', 'melt-quote-state'), **kw)]
def c10(tier):
    kw = dict(models=('std', 'crypto', 'json'), crypto_mode='alg')
    return [Harness('VHarnessBDHKE', 'crypto', ['crypto/zz_verif_bdhke.go'], summaries=('h2c',), bounds='every secret (string of any length), every blinding factor, every key: all symbolic', must_reach=('done',), **kw),
            Harness('VHarnessDLEQ', 'crypto', ['crypto/zz_verif_bdhke.go'], summaries=('h2c',), bounds='every key, blinded message, nonce; arbitrary (e, s, A, B\', C\') for the specification equivalence', must_reach=('complete', 'spec'), **kw),
            Harness('VHarnessDLEQWallet', 'cashu/nuts/nut12', ['cashu/nuts/nut12/zz_verif_dleq.go', 'crypto/zz_verif_bdhke.go'], summaries=('h2c',), bounds='every secret, key, blinding factor, nonce', must_reach=('done',), **kw),
            Harness('VHarnessHashToCurve', 'crypto', ['crypto/zz_verif_bdhke.go', 'crypto/zz_verif_derive.go'], models=('std', 'crypto', 'json'), crypto_mode='euf', bounds='conformance of the real HashToCurve with the reference term the h2c summary of the other C10 harnesses stands for: every message (string of any length); counter loop unwound 40 times', must_reach=('done',), unwind=42, salt_retries=True),
            Harness('VHarnessDLEQToken', 'cashu/nuts/nut12', ['cashu/nuts/nut12/zz_verif_dleq.go', 'crypto/zz_verif_bdhke.go'], summaries=('h2c',), bounds='token of 2 proofs over a keyset of 2 keys, every secret / key / blinding factor / nonce; the amount of one proof replaced by any other 64-bit value, in either position', must_reach=('token',), **kw)]
def c11(tier):
    kw = dict(models=('std', 'crypto', 'json'), crypto_mode='euf')
    F = ['crypto/zz_verif_bdhke.go', 'crypto/zz_verif_derive.go']
    wide = [Harness('VHarnessKeysetId6', 'crypto', F, bounds='every set of exactly 6 keys with arbitrary distinct 64-bit amounts (every relative order)', must_reach=('done',), timeout_s=3000, **kw)] if tier == 'thorough' else []
    return wide + [Harness('VHarnessHashToCurve', 'crypto', F, bounds='every message (string of any length); counter loop unwound 40 times (messages needing more iterations: outside, probability 2^-40)', must_reach=('done',), unwind=42, salt_retries=True, **kw),
            Harness('VHarnessKeysetId', 'crypto', F, bounds='every set of 1..3 keys with arbitrary distinct 64-bit amounts', must_reach=('done',), **kw),
            Harness('VHarnessKeysetId4', 'crypto', F, bounds='every set of exactly 4 keys with arbitrary distinct 64-bit amounts (every relative order)', must_reach=('done',), **kw),
            Harness('VHarnessKeysetId5', 'crypto', F, bounds='every set of exactly 5 keys with arbitrary distinct 64-bit amounts (every relative order)', must_reach=('done',), **kw),
            Harness('VHarnessGenerateKeyset', 'crypto', F, bounds='every 32-byte seed, every derivation index < 2^31; all 60 keys', must_reach=('done',), **kw),
            Harness('VHarnessNut13', 'cashu/nuts/nut13', F + ['cashu/nuts/nut13/zz_verif_nut13.go'], bounds='every 32-byte seed, every 8-byte keyset id (incl. high bits set), every counter < 2^31', must_reach=('done',), **kw),
            Harness('VHarnessDeriveP2PK', 'wallet', F + ['wallet/zz_verif_p2pkkey.go'], bounds='every 32-byte seed', must_reach=('done',), **kw)]
C11_ASSUME = COMMON_ASSUME + ['the primitives themselves (sha256, secp256k1 point parsing, BIP-32 child derivation) are uninterpreted functions shared by implementation and reference: what is decided is the composition, bit for bit',
    'BIP-32 derivation never fails (probability 2^-127 per step) and has no collisions']
C10_ASSUME = COMMON_ASSUME + [
    'secp256k1 modelled algebraically: points by their discrete logarithm, scalars and points as integers; ring identities over Z hold modulo the group order (facts that hold only modulo n are outside)',
    'sha256, point serialisation, hash_to_curve are collision free (injectivity instances); hash_to_curve never returns the identity',
    'PrivKeyFromBytes of a 32-byte hash is below the group order (fails with probability ~2^-128)',
]

PROPS = {
    'C20': dict(harnesses=c20, level='bounded symbolic verification (reduced scope): handler decisions and structural JSON shape over a handler-level model of net/http', assumptions=MINT_ASSUME + ['net/http and gorilla/mux modelled at the handler level: request = method + URL + path variables + body, response = recorded status and body'], outside=['byte-exactness of encoding/json output', 'gorilla/mux routing', 'websocket subscriptions (NUT-17), incl. the JSON shape of the notifications websocket.go pushes (seed C20f lives there and is not detected)', 'cache expiry timing, CORS headers', 'success-path JSON shape of the melt / melt-quote / mint-quote / checkstate / restore handlers (their status codes and failure reporting are covered by VHarnessServerFaults; shape only for swap, mint, keys, quote state)']),
    'C19': dict(harnesses=c19, level='bounded symbolic verification: counters submitted vs counters stored per operation, Restore() executed whole over a symbolic signed/empty pattern, send killed at any storage / HTTP call then restored', assumptions=WALLET_ASSUME + C11_ASSUME, outside=['bolt.go', 'bip39', 'wallet crash points: one operation (send / melt paid or failed / receive / mint) from one starting state each; a melt left PENDING at the crash is not covered', 'the claim that a crashed wallet never re-submits a signed counter (false by design: the counter is advanced after the proofs are stored)', 'more than 4 batches']),
    'C08': dict(harnesses=c08, level='bounded symbolic verification: every HTTP request body produced by the real client.go is decoded and inspected', assumptions=WALLET_ASSUME, outside=['transport below client.go, side channels', 'receive from an untrusted mint with swap-to-trusted (incl. its SIG_ALL branch, which melts freshly swapped proofs), mint-to-mint swap, multi-mint payments: seed C08b lives there and is not detected', 'HTLC-locked receive (ReceiveHTLC); P2PK-locked receive only for locks on the wallet key without further tags']),
    'C17': dict(harnesses=c17, level='bounded symbolic verification (reduced scope): per-operation conservation step for one wallet against an honest-contract mint', assumptions=WALLET_ASSUME, outside=['multi-wallet / multi-mint histories as a whole (argued by composition)', 'swapToTrusted / MintSwap / MultiMintPayment', 'bolt.go', 'the real mint behind the fake (C01/C02/C05)']),
    'C18': dict(harnesses=c18, level='bounded symbolic verification of the real selection / swap-to-send code against an honest-contract mint', assumptions=WALLET_ASSUME, outside=['bolt.go', 'amounts above 2^5 per proof, more than 4 held proofs']),
    'C04': dict(harnesses=c04, level='bounded symbolic verification: soundness formula, completeness and explicit mutation classes', assumptions=MINT_ASSUME + ['unforgeability stated explicitly: an arbitrary C is not the valid signature of its secret under one of the mint keys', 'distinct denominations / keysets have distinct private keys'], outside=['BIP-32 derivation collisions', 'hash-to-curve collisions', 'Go memory-model data races inside one call, e.g. a shared scratch buffer in HashToCurve (seed C04e): the engine interleaves threads at storage / Lightning calls only']),
    'C09': dict(harnesses=c09, level='bounded symbolic verification of LoadMint / RotateKeyset / GenerateKeyset executed whole over the storage model', assumptions=MINT_ASSUME + C11_ASSUME, outside=['BIP-32 itself', 'file system, migration runner (InitSQLite summarised as: returns the database of that directory)']),
    'C11': dict(harnesses=c11, level='bounded symbolic verification: equality with reference terms written from NUT-00/02/13 over the same uninterpreted primitives', assumptions=C11_ASSUME, outside=['the primitives themselves (library code)', 'keyset ids shorter than 8 bytes (DeriveKeysetPath indexes 8 bytes)']),
    'C10': dict(harnesses=c10, level='bounded symbolic verification over an algebraic group model: completeness identities and equivalence of the accept condition with the NUT-12 equation', assumptions=C10_ASSUME,
                outside=['random-oracle soundness of the Chaum-Pedersen proof (that no other (e,s) satisfies the equation): cryptographic, not claimed', 'edge scalars 0 and >= n beyond reduction mod n']),
    'C13': dict(harnesses=c13, level='bounded symbolic verification against a reference predicate written from NUT-14', assumptions=P2PK_ASSUME, outside=['BIP-340 security', 'sha256 collisions (injectivity assumed)']),
    'C12': dict(harnesses=c12, level='bounded symbolic verification against a reference predicate written from NUT-11 (two implications: accepted => REQ, canonical witness => accepted)', assumptions=P2PK_ASSUME, outside=['BIP-340 security', 'nut10 JSON text format']),
    'C05': dict(harnesses=c05, level='bounded symbolic verification over scripted Lightning answers', assumptions=MINT_ASSUME, outside=['the real LND/CLN adapters (network code); the property is stated at the lightning.Client interface']),
    'C07': dict(harnesses=c07, level='bounded symbolic verification with the crash / fault position as a solver variable', assumptions=MINT_ASSUME + ['one MintDB method call is atomic and durable (SQLite transaction; db.SetMaxOpenConns(1))', 'restart = fresh Mint object over the surviving tables with the same keysets (LoadMint itself: file system, migrations are outside)'], outside=['torn writes inside one SQLite transaction, crashes inside LoadMint/migrations, file-system faults']),
    'C06': dict(harnesses=c06, level='bounded symbolic verification: failure atomicity (whole-database comparison) and implicit-panic obligations on every path', assumptions=MINT_ASSUME, outside=[]),
    'C15': dict(harnesses=c15, level='bounded symbolic verification', assumptions=MINT_ASSUME, outside=[]),
    'C16': dict(harnesses=c16, level='bounded symbolic verification', assumptions=MINT_ASSUME, outside=[]),
    'C03': dict(harnesses=c03, level='bounded symbolic verification', assumptions=MINT_ASSUME, outside=[]),
    'C01': dict(harnesses=c01, level='bounded symbolic verification: one-step inductive check from an arbitrary database state', assumptions=MINT_ASSUME, outside=[]),
    'C14': dict(harnesses=c14, level='bounded symbolic verification of DecodeToken/accessors (panic obligations) and of the V3/V4 round trip over the structural JSON/CBOR model',
                assumptions=COMMON_ASSUME, outside=['fidelity of encoding/json and fxamacker/cbor themselves']),
    'C02': dict(harnesses=c02, level='bounded symbolic verification', assumptions=COMMON_ASSUME, outside=[]),
}
