import sys, os, argparse
sys.path.insert(0, os.path.dirname(os.path.dirname(os.path.abspath(__file__))))
sys.setrecursionlimit(20000)
# second-opinion sampling rate (gosym/solver.py): every n-th decided query also goes to z3 4.8.12 and cvc5
if 'VERIF_XSOLVER' not in os.environ:
    _tier = os.environ.get('VERIF_TIER', 'quick')
    if '--tier' in sys.argv[:-1]: _tier = sys.argv[sys.argv.index('--tier') + 1]
    os.environ['VERIF_XSOLVER'] = '40' if _tier == 'thorough' else '400'
from gosym import driver
from checks import props

def main():
    ap = argparse.ArgumentParser()
    ap.add_argument('prop')
    ap.add_argument('--tier', default=os.environ.get('VERIF_TIER', 'quick'))
    ap.add_argument('--only', default=None, help='run a single harness by name (development)')
    ap.add_argument('--nproc', type=int, default=None)
    ap.add_argument('--replay', default=None)
    a = ap.parse_args()
    seed = int(os.environ.get('VERIF_SEED', '0') or 0)
    if a.replay:
        sh = os.path.join(a.replay, 'replay.sh')
        os.execv('/bin/sh', ['/bin/sh', sh])
    spec = props.PROPS[a.prop]
    hs = spec['harnesses'](a.tier)
    if a.only:
        hs = [h for h in hs if h.name == a.only]; os.environ['VERIF_DEV'] = '1'
    rc = driver.run_property(a.prop, hs, a.tier, spec['level'], spec.get('assumptions', []), spec.get('outside', []), nproc=a.nproc, seed=seed)
    sys.exit(rc)

if __name__ == '__main__':
    main()
