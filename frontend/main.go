// ssa2json: dump SSA of repo packages (with overlay harness files) as JSON.
package main

import (
	"encoding/json"
	"flag"
	"fmt"
	"go/constant"
	"go/token"
	"go/types"
	"os"
	"sort"
	"strings"

	"golang.org/x/tools/go/packages"
	"golang.org/x/tools/go/ssa"
	"golang.org/x/tools/go/ssa/ssautil"
)

const modPrefix = "github.com/elnosh/gonuts"

type J = map[string]any

var typeTab = map[string]J{}
var methodTab = map[string]map[string]string{}
var prog *ssa.Program

func tid(t types.Type) string {
	if t == nil {
		return ""
	}
	t = types.Unalias(t)
	s := types.TypeString(t, nil)
	if _, ok := typeTab[s]; ok {
		return s
	}
	d := J{}
	typeTab[s] = d
	switch u := t.(type) {
	case *types.Basic:
		d["k"] = "basic"
		d["name"] = u.Name()
		d["info"] = int(u.Info())
		d["kind"] = int(u.Kind())
	case *types.Named:
		d["k"] = "named"
		d["under"] = tid(u.Underlying())
		if u.Obj().Pkg() != nil {
			d["pkg"] = u.Obj().Pkg().Path()
		}
		d["obj"] = u.Obj().Name()
	case *types.Alias:
		d["k"] = "alias"
		d["under"] = tid(types.Unalias(u))
	case *types.Pointer:
		d["k"] = "ptr"
		d["elem"] = tid(u.Elem())
	case *types.Slice:
		d["k"] = "slice"
		d["elem"] = tid(u.Elem())
	case *types.Array:
		d["k"] = "array"
		d["elem"] = tid(u.Elem())
		d["len"] = u.Len()
	case *types.Map:
		d["k"] = "map"
		d["key"] = tid(u.Key())
		d["elem"] = tid(u.Elem())
	case *types.Chan:
		d["k"] = "chan"
		d["elem"] = tid(u.Elem())
	case *types.Struct:
		d["k"] = "struct"
		var fs []J
		for i := 0; i < u.NumFields(); i++ {
			f := u.Field(i)
			fs = append(fs, J{"name": f.Name(), "type": tid(f.Type()), "tag": u.Tag(i), "emb": f.Embedded(), "exp": f.Exported()})
		}
		d["fields"] = fs
	case *types.Interface:
		d["k"] = "iface"
		var ms []string
		for i := 0; i < u.NumMethods(); i++ {
			ms = append(ms, u.Method(i).Name())
		}
		d["methods"] = ms
	case *types.Signature:
		d["k"] = "sig"
		d["params"] = tid(u.Params())
		d["results"] = tid(u.Results())
		d["variadic"] = u.Variadic()
	case *types.Tuple:
		d["k"] = "tuple"
		var es []string
		for i := 0; i < u.Len(); i++ {
			es = append(es, tid(u.At(i).Type()))
		}
		d["elems"] = es
	case *types.TypeParam:
		d["k"] = "typeparam"
	default:
		d["k"] = fmt.Sprintf("%T", t)
	}
	return s
}

func recordMethods(t types.Type) {
	s := tid(t)
	if _, ok := methodTab[s]; ok {
		return
	}
	m := map[string]string{}
	methodTab[s] = m
	ms := prog.MethodSets.MethodSet(t)
	for i := 0; i < ms.Len(); i++ {
		sel := ms.At(i)
		if f := prog.MethodValue(sel); f != nil {
			m[sel.Obj().Name()] = f.String()
			want(f)
		}
	}
}

var wanted = map[*ssa.Function]bool{}
var queue []*ssa.Function

func inRepo(f *ssa.Function) bool {
	if f.Pkg != nil {
		return strings.HasPrefix(f.Pkg.Pkg.Path(), modPrefix)
	}
	if f.Parent() != nil {
		return inRepo(f.Parent())
	}
	if o := f.Origin(); o != nil {
		return inRepo(o)
	}
	// synthetic wrappers / bound methods: include if they have blocks
	return f.Synthetic != ""
}

func want(f *ssa.Function) {
	if f == nil || wanted[f] {
		return
	}
	if f.Blocks == nil || !inRepo(f) {
		return
	}
	wanted[f] = true
	queue = append(queue, f)
}

func val(v ssa.Value) J {
	switch x := v.(type) {
	case nil:
		return nil
	case *ssa.Const:
		j := J{"k": "const", "t": tid(x.Type())}
		if x.Value == nil {
			j["nil"] = true
		} else {
			switch x.Value.Kind() {
			case constant.Bool:
				j["v"] = constant.BoolVal(x.Value)
			case constant.String:
				j["v"] = constant.StringVal(x.Value)
			case constant.Int:
				j["v"] = x.Value.ExactString()
			case constant.Float:
				f, _ := constant.Float64Val(x.Value)
				j["v"] = f
			default:
				j["v"] = x.Value.String()
			}
			j["ck"] = int(x.Value.Kind())
		}
		return j
	case *ssa.Parameter:
		return J{"k": "param", "n": x.Name()}
	case *ssa.FreeVar:
		return J{"k": "free", "n": x.Name()}
	case *ssa.Global:
		return J{"k": "global", "n": x.String(), "t": tid(x.Type())}
	case *ssa.Function:
		want(x)
		return J{"k": "func", "n": x.String(), "t": tid(x.Type())}
	case *ssa.Builtin:
		return J{"k": "builtin", "n": x.Name()}
	default:
		return J{"k": "reg", "n": v.Name()}
	}
}

func vals(vs []ssa.Value) []J {
	r := make([]J, len(vs))
	for i, v := range vs {
		r[i] = val(v)
	}
	return r
}

func call(c *ssa.CallCommon) J {
	j := J{"args": vals(c.Args), "sig": tid(c.Signature())}
	if c.IsInvoke() {
		j["invoke"] = c.Method.Name()
		j["recv"] = val(c.Value)
		j["iface"] = tid(c.Value.Type())
	} else {
		j["fn"] = val(c.Value)
		if sf := c.StaticCallee(); sf != nil {
			j["static"] = sf.String()
			want(sf)
		}
	}
	return j
}

func instr(in ssa.Instruction) J {
	j := J{"op": strings.TrimPrefix(fmt.Sprintf("%T", in), "*ssa.")}
	if v, ok := in.(ssa.Value); ok {
		j["name"] = v.Name()
		j["type"] = tid(v.Type())
	}
	if p := in.Pos(); p != token.NoPos {
		pos := prog.Fset.Position(p)
		j["pos"] = fmt.Sprintf("%s:%d", pos.Filename, pos.Line)
	}
	switch x := in.(type) {
	case *ssa.Alloc:
		j["heap"] = x.Heap
		j["elem"] = tid(x.Type().(*types.Pointer).Elem())
	case *ssa.BinOp:
		j["tok"] = x.Op.String()
		j["x"], j["y"] = val(x.X), val(x.Y)
		j["xt"] = tid(x.X.Type())
	case *ssa.UnOp:
		j["tok"] = x.Op.String()
		j["x"] = val(x.X)
		j["commaok"] = x.CommaOk
		j["xt"] = tid(x.X.Type())
	case *ssa.Call:
		j["call"] = call(&x.Call)
	case *ssa.Go:
		j["call"] = call(&x.Call)
	case *ssa.Defer:
		j["call"] = call(&x.Call)
	case *ssa.ChangeInterface:
		j["x"] = val(x.X)
	case *ssa.ChangeType:
		j["x"] = val(x.X)
	case *ssa.Convert:
		j["x"] = val(x.X)
		j["xt"] = tid(x.X.Type())
	case *ssa.MultiConvert:
		j["x"] = val(x.X)
		j["xt"] = tid(x.X.Type())
	case *ssa.SliceToArrayPointer:
		j["x"] = val(x.X)
	case *ssa.Extract:
		j["x"] = val(x.Tuple)
		j["i"] = x.Index
	case *ssa.Field:
		j["x"] = val(x.X)
		j["i"] = x.Field
	case *ssa.FieldAddr:
		j["x"] = val(x.X)
		j["i"] = x.Field
	case *ssa.Index:
		j["x"], j["y"] = val(x.X), val(x.Index)
		j["xt"] = tid(x.X.Type())
	case *ssa.IndexAddr:
		j["x"], j["y"] = val(x.X), val(x.Index)
		j["xt"] = tid(x.X.Type())
	case *ssa.Lookup:
		j["x"], j["y"] = val(x.X), val(x.Index)
		j["commaok"] = x.CommaOk
		j["xt"] = tid(x.X.Type())
	case *ssa.MakeChan:
		j["x"] = val(x.Size)
	case *ssa.MakeClosure:
		j["fn"] = val(x.Fn)
		j["bindings"] = vals(x.Bindings)
	case *ssa.MakeInterface:
		j["x"] = val(x.X)
		j["xt"] = tid(x.X.Type())
		recordMethods(x.X.Type())
	case *ssa.MakeMap:
		j["x"] = val(x.Reserve)
	case *ssa.MakeSlice:
		j["len"], j["cap"] = val(x.Len), val(x.Cap)
	case *ssa.MapUpdate:
		j["m"], j["key"], j["val"] = val(x.Map), val(x.Key), val(x.Value)
	case *ssa.Next:
		j["x"] = val(x.Iter)
		j["isstring"] = x.IsString
	case *ssa.Range:
		j["x"] = val(x.X)
		j["xt"] = tid(x.X.Type())
	case *ssa.Phi:
		j["edges"] = vals(x.Edges)
	case *ssa.Select:
		var st []J
		for _, s := range x.States {
			st = append(st, J{"dir": int(s.Dir), "chan": val(s.Chan), "send": val(s.Send)})
		}
		j["states"] = st
		j["blocking"] = x.Blocking
	case *ssa.Send:
		j["chan"], j["x"] = val(x.Chan), val(x.X)
	case *ssa.Slice:
		j["x"], j["lo"], j["hi"], j["max"] = val(x.X), val(x.Low), val(x.High), val(x.Max)
		j["xt"] = tid(x.X.Type())
	case *ssa.Store:
		j["addr"], j["val"] = val(x.Addr), val(x.Val)
	case *ssa.TypeAssert:
		j["x"] = val(x.X)
		j["asserted"] = tid(x.AssertedType)
		j["commaok"] = x.CommaOk
		if !types.IsInterface(x.AssertedType) {
			recordMethods(x.AssertedType)
		}
	case *ssa.If:
		j["cond"] = val(x.Cond)
	case *ssa.Jump, *ssa.RunDefers:
	case *ssa.Return:
		j["results"] = vals(x.Results)
	case *ssa.Panic:
		j["x"] = val(x.X)
	case *ssa.DebugRef:
	default:
		j["unhandled"] = true
	}
	return j
}

func fun(f *ssa.Function) J {
	j := J{"name": f.String(), "sig": tid(f.Signature), "synthetic": f.Synthetic}
	if f.Pkg != nil {
		j["pkg"] = f.Pkg.Pkg.Path()
	}
	var ps, fvs []J
	for _, p := range f.Params {
		ps = append(ps, J{"n": p.Name(), "t": tid(p.Type())})
	}
	for _, p := range f.FreeVars {
		fvs = append(fvs, J{"n": p.Name(), "t": tid(p.Type())})
	}
	j["params"], j["free"] = ps, fvs
	if f.Recover != nil {
		j["recover"] = f.Recover.Index
	}
	var bs []J
	for _, b := range f.Blocks {
		bj := J{"i": b.Index, "comment": b.Comment}
		var succs, preds []int
		for _, s := range b.Succs {
			succs = append(succs, s.Index)
		}
		for _, p := range b.Preds {
			preds = append(preds, p.Index)
		}
		bj["succs"], bj["preds"] = succs, preds
		var is []J
		for _, in := range b.Instrs {
			if _, ok := in.(*ssa.DebugRef); ok {
				continue
			}
			is = append(is, instr(in))
		}
		bj["instrs"] = is
		bs = append(bs, bj)
	}
	j["blocks"] = bs
	for _, a := range f.AnonFuncs {
		want(a)
	}
	return j
}

type overlays []string

func (o *overlays) String() string     { return "" }
func (o *overlays) Set(s string) error { *o = append(*o, s); return nil }

func main() {
	var ov overlays
	out := flag.String("o", "ir.json", "output")
	flag.Var(&ov, "overlay", "virtual=real")
	dir := flag.String("dir", "/repo", "repository root")
	flag.Parse()
	cfg := &packages.Config{Mode: packages.LoadSyntax, Dir: *dir, Env: append(os.Environ(), "GOFLAGS=-mod=mod", "GOPROXY=off"), Overlay: map[string][]byte{}}
	for _, o := range ov {
		kv := strings.SplitN(o, "=", 2)
		b, err := os.ReadFile(kv[1])
		if err != nil {
			panic(err)
		}
		cfg.Overlay[kv[0]] = b
	}
	pkgs, err := packages.Load(cfg, flag.Args()...)
	if err != nil {
		panic(err)
	}
	if packages.PrintErrors(pkgs) > 0 {
		os.Exit(1)
	}
	var spkgs []*ssa.Package
	prog, spkgs = ssautil.Packages(pkgs, ssa.InstantiateGenerics)
	globals := []J{}
	var order []string
	for _, p := range spkgs {
		if p == nil {
			continue
		}
		p.Build()
		order = append(order, p.Pkg.Path())
		for _, m := range p.Members {
			switch x := m.(type) {
			case *ssa.Function:
				want(x)
			case *ssa.Global:
				globals = append(globals, J{"n": x.String(), "t": tid(x.Type()), "elem": tid(x.Type().(*types.Pointer).Elem())})
			case *ssa.Type:
				recordMethods(x.Type())
				recordMethods(types.NewPointer(x.Type()))
			}
		}
	}
	funcs := J{}
	for len(queue) > 0 {
		f := queue[0]
		queue = queue[1:]
		funcs[f.String()] = fun(f)
	}
	sort.Strings(order)
	res := J{"funcs": funcs, "types": typeTab, "methods": methodTab, "globals": globals, "pkgs": order}
	f, _ := os.Create(*out)
	enc := json.NewEncoder(f)
	if err := enc.Encode(res); err != nil {
		panic(err)
	}
	f.Close()
	fmt.Fprintf(os.Stderr, "funcs=%d types=%d\n", len(funcs), len(typeTab))
}
