# gosym core: a path-exploring symbolic interpreter for the JSON SSA produced by frontend/ssa2json.
# Path exploration is by decision replay (DESIGN.md 3.3): a path = list of decisions; the harness is
# re-executed from the start for every path, no interpreter state is ever copied.
import itertools, time, sys
import z3
from .sym import *
from .solver import PathSolver

# ----------------------------------------------------------------------------- values
class Box:
    __slots__ = ('v', 'name')
    def __init__(self, v, name=''):
        self.v = v; self.name = name

class Ptr:
    __slots__ = ('box', 'path')
    def __init__(self, box, path=()):
        self.box = box; self.path = path
    def __eq__(self, o):
        return isinstance(o, Ptr) and self.box is o.box and self.path == o.path
    def __ne__(self, o): return not self.__eq__(o)
    def __hash__(self): return hash((id(self.box), self.path))

class StructV:
    __slots__ = ('f',)
    def __init__(self, f): self.f = f
class ArrayV:
    __slots__ = ('e',)
    def __init__(self, e): self.e = e
class SliceV:
    __slots__ = ('arr', 'off', 'len', 'cap')
    def __init__(self, arr, off, ln, cap): self.arr, self.off, self.len, self.cap = arr, off, ln, cap
    def elems(self): return self.arr.v.e[self.off:self.off + self.len]
class MapV:
    __slots__ = ('ents',)
    def __init__(self): self.ents = []
class IfaceV:
    __slots__ = ('t', 'v')
    def __init__(self, t, v): self.t, self.v = t, v
class FuncV:
    __slots__ = ('name', 'bind')
    def __init__(self, name, bind=()): self.name, self.bind = name, bind
class StrV:
    """Go string: concrete python str (one char per byte, latin-1) or a z3 term of sort Str."""
    __slots__ = ('c', 't')
    def __init__(self, c=None, t=None): self.c, self.t = c, t
    def __repr__(self): return 'StrV(%r)' % (self.c if self.c is not None else self.t)
class BytesV:
    """immutable opaque []byte: a string term viewed as a byte slice (symbolic length)."""
    __slots__ = ('s',)
    def __init__(self, s): self.s = s
class Opaque:
    """value of an external (library) type that is modelled algebraically: kind + payload"""
    __slots__ = ('kind', 'val')
    def __init__(self, kind, val): self.kind, self.val = kind, val
    def __repr__(self): return 'Opaque(%s,%r)' % (self.kind, self.val)
class ChanV:
    __slots__ = ('buf', 'cap', 'closed', 'name', 'senders')
    def __init__(self, cap): self.buf = []; self.cap = cap; self.closed = False; self.senders = []

class PathEnd(Exception): pass
class GoPanic(Exception):
    def __init__(self, msg): self.msg = msg
class Unsupported(Exception): pass

def mkslice(vals):
    vals = list(vals)
    return SliceV(Box(ArrayV(vals)), 0, len(vals), len(vals))

def copyv(v):
    if isinstance(v, StructV): return StructV([copyv(x) for x in v.f])
    if isinstance(v, ArrayV): return ArrayV([copyv(x) for x in v.e])
    if isinstance(v, Opaque): return Opaque(v.kind, v.val)
    return v

class Frame:
    __slots__ = ('fn', 'regs', 'blk', 'prev', 'ip', 'defers', 'free', 'result', 'loops')
    def __init__(self, fn):
        self.fn = fn; self.regs = {}; self.blk = 0; self.prev = -1; self.ip = 0; self.defers = []; self.free = {}

class PathState:
    def __init__(self, prefix):
        self.solver = PathSolver()
        self.prefix = prefix; self.dpos = 0; self.decisions = []
        self.nondets = {}          # label -> (kind, term or python value)
        self.labelcnt = {}
        self.lits = set()
        self.axdone = set()
        self.g = {}                # ghost state of models (ledger, db, clock, ...)
        self.assumes = 0
        self.trace = []            # human-readable event trace (scheduling points, model calls)
        self.keep = []             # terms used as keys of ghost dictionaries (by AST id) are kept alive so ids stay unique

BITS = {'int': 64, 'uint': 64, 'uintptr': 64, 'int64': 64, 'uint64': 64, 'int32': 32, 'uint32': 32,
        'int16': 16, 'uint16': 16, 'int8': 8, 'uint8': 8, 'untyped int': 64, 'untyped rune': 32, 'byte': 8, 'rune': 32}
SIGNED = {'int', 'int64', 'int32', 'int16', 'int8', 'untyped int', 'untyped rune', 'rune'}

def sgn(v, w):
    return v - (1 << w) if v >> (w - 1) else v

class Engine:
    def __init__(self, ir, timeout_ms=30000):
        self.ir = ir; self.funcs = ir['funcs']; self.types = ir['types']; self.methods = ir['methods']
        self.intr = {}              # exact function name -> model
        self.prefix_intr = []       # (prefix, model) for generic instances / whole packages
        self.ext_zero = {}          # external type name -> zero-value constructor
        self.lit_tab = {}
        self.timeout_ms = timeout_ms
        self.sched_ifaces = ()
        self.unwind = None
        self.panic_mode = 'ignore'  # 'obligation': implicit Go panics are violations
        self.go_mode = 'ignore'     # what a `go` statement does outside vGo: 'ignore' | 'spawn'
        self.known = []             # known-finding predicates for the running harness
        self.stats = dict(paths=0, queries=0, solver_s=0.0, instrs=0, violations=[], known_hits={}, reached={}, asserts={},
                          funcs=set(), unsupported=[], unknown=0, samples=[])
        self._under = {}; self._bits = {}; self._signed = {}
        for f in self.funcs.values():
            f['params'] = f['params'] or []; f['free'] = f['free'] or []
            for b in f['blocks']:
                b['succs'] = b['succs'] or []; b['preds'] = b['preds'] or []
                for ins in b['instrs']:
                    if 'call' in ins: ins['call']['args'] = ins['call']['args'] or []
                    if ins['op'] == 'Return': ins['results'] = ins['results'] or []
                    if ins['op'] == 'MakeClosure': ins['bindings'] = ins['bindings'] or []
                    if ins['op'] == 'Select': ins['states'] = ins['states'] or []
                b['phis'] = [i for i in b['instrs'] if i['op'] == 'Phi']
        self.P = None

    # ------------------------------------------------------------------ types
    def under(self, t):
        r = self._under.get(t)
        if r is None:
            t0 = t
            d = self.types[t]
            while d['k'] in ('named', 'alias'):
                t = d['under']; d = self.types[t]
            r = self._under[t0] = (t, d)
        return r
    def kind(self, t): return self.under(t)[1]['k']
    def bits(self, t):
        r = self._bits.get(t, 0)
        if r == 0:
            d = self.under(t)[1]
            r = self._bits[t] = BITS.get(d.get('name')) if d['k'] == 'basic' else None
        return r
    def signed(self, t):
        r = self._signed.get(t)
        if r is None:
            d = self.under(t)[1]
            r = self._signed[t] = d.get('name') in SIGNED
        return r
    def zero(self, t):
        z = self.ext_zero.get(t)
        if z is not None: return z(self)
        d0 = self.types[t]
        if d0['k'] in ('named', 'alias'): return self.zero(d0['under'])
        d = d0; k = d['k']
        if k == 'basic':
            n = d['name']
            if n in ('bool', 'untyped bool'): return False
            if 'string' in n: return StrV(c='')
            if 'float' in n: return 0.0
            if BITS.get(n): return 0
            return None
        if k == 'struct': return StructV([self.zero(f['type']) for f in (d['fields'] or [])])
        if k == 'array': return ArrayV([self.zero(d['elem']) for _ in range(d['len'])])
        return None   # ptr, slice, map, iface, func, chan

    # ------------------------------------------------------------------ ints
    def bv(self, x, bits=64):
        """force a z3 bit-vector"""
        if isinstance(x, int): return z3.BitVecVal(x, bits)
        return x
    def conc(self, x):
        """python int if x is concrete else None"""
        if isinstance(x, int): return x
        x = z3.simplify(x)
        if z3.is_bv_value(x): return x.as_long()
        return None

    # ------------------------------------------------------------------ strings
    def lit(self, s):
        t = self.lit_tab.get(s)
        if t is None:
            t = self.lit_tab[s] = (z3.Const('lit%d' % len(self.lit_tab), Str), len(self.lit_tab))
        P = self.P
        if s not in P.lits:
            P.lits.add(s)
            P.solver.add(slen(t[0]) == len(s), litid(t[0]) == t[1])
        return t[0]
    def sterm(self, v):
        if v.c is not None: return self.lit(v.c)
        return v.t
    def streq(self, a, b):
        if a.c is not None and b.c is not None: return a.c == b.c
        if a.c is None and b.c is None and a.t.eq(b.t): return True
        # a concatenation with a literal head / tail against a literal: peel the literal part
        if a.c is not None: a, b = b, a
        if b.c == '': return slen(a.t) == 0        # the empty string is the only string of length 0
        if b.c is not None and is_app_of(a.t, 'sconcat'):
            h = self.tostr(a.t.arg(0)); tl = self.tostr(a.t.arg(1))
            if h.c is not None:
                if not b.c.startswith(h.c): return False
                return self.streq(tl, StrV(c=b.c[len(h.c):]))
            if tl.c is not None:
                if not b.c.endswith(tl.c): return False
                return self.streq(h, StrV(c=b.c[:len(b.c) - len(tl.c)]))
        ta, tb = self.sterm(a), self.sterm(b)
        if self.sdiff(ta, tb): return False
        return ta == tb
    inj_pos = {'hexenc': {0}}
    def sdiff(self, a, b, depth=0):
        """syntactic test: are two terms definitely different under the injectivity / collision-freedom assumptions that
        are also given to the solver as axioms (so this only saves queries, it decides nothing the solver would not)"""
        if depth > 12 or a.eq(b) or not (z3.is_app(a) and z3.is_app(b)): return False
        if (z3.is_bv_value(a) and z3.is_bv_value(b)) or (z3.is_int_value(a) and z3.is_int_value(b)): return a.as_long() != b.as_long()
        na, nb = a.decl().name(), b.decl().name()
        if a.num_args() == 0 and b.num_args() == 0:
            ca, cb = self.tostr(a), self.tostr(b)
            return ca.c is not None and cb.c is not None and ca.c != cb.c
        if na != nb or a.num_args() != b.num_args(): return False
        if na == 'pmul' and getattr(self, 'crypto_mode', 'alg') == 'euf':
            return (a.arg(1).eq(b.arg(1)) and self.sdiff(a.arg(0), b.arg(0), depth + 1)) or (a.arg(0).eq(b.arg(0)) and self.sdiff(a.arg(1), b.arg(1), depth + 1))
        if na == 'padd' and getattr(self, 'padd_inj', False):
            # as the padd_l / padd_r axioms: operand-wise on the canonical operand order
            return self.sdiff(a.arg(0), b.arg(0), depth + 1) or self.sdiff(a.arg(1), b.arg(1), depth + 1)
        for j in self.inj_pos.get(na, ()):
            if j < a.num_args() and self.sdiff(a.arg(j), b.arg(j), depth + 1): return True
        return False
    def strlen(self, a):
        if a.c is not None: return len(a.c)
        # no Go string is longer than the address space: lengths seen by the program are below 2^48 (stated), so that
        # len(s) is a non-negative int and sums of a few lengths do not wrap
        self.ax(('lenb', a.t.get_id()), z3.ULT(slen(a.t), 1 << 48))
        return slen(a.t)
    def ax(self, key, *formulas):
        """instantiate an axiom once per path"""
        P = self.P
        if key in P.axdone: return
        P.axdone.add(key)
        P.keep.extend(f for f in formulas if z3.is_expr(f))
        for f in formulas: P.solver.add(f)
    def newstr(self, name):
        """fresh symbolic string constant (not registered as a nondet)"""
        t = z3.Const(name, Str)
        self.P.solver.add(z3.Implies(slen(t) == 0, t == self.lit('')))
        return StrV(t=t)
    def sconcat(self, a, b):
        if a.c is not None and b.c is not None: return StrV(c=a.c + b.c)
        if a.c == '': return b
        if b.c == '': return a
        # fold literal tails: (x ++ "a") ++ "b" -> x ++ "ab"
        if b.c is not None and a.c is None and is_app_of(a.t, 'sconcat'):
            r = a.t.arg(1)
            for s, (lt, _) in self.lit_tab.items():
                if lt.eq(r):
                    return self.sconcat(StrV(t=a.t.arg(0)), StrV(c=s + b.c))
        ta, tb = self.sterm(a), self.sterm(b)
        t = sconcat(ta, tb)
        key = ('cc', t.get_id())
        if key not in self.P.axdone:
            self.ax(key, slen(t) == slen(ta) + slen(tb), z3.ULE(slen(ta), slen(t)), z3.ULE(slen(tb), slen(t)))
            # cancellation: a concatenation whose head has a known length determines its parts (inverse functions per head
            # length: linear number of instances, equal concatenations are then equal part by part by congruence)
            kl = self.known_len(ta)
            if kl is not None:
                hd = z3.Function('chead_%d' % kl, Str, Str); tl = z3.Function('ctail_%d' % kl, Str, Str)
                self.P.solver.add(hd(t) == ta, tl(t) == tb)
        return StrV(t=t)
    def ssub(self, a, lo, hi):
        """a[lo:hi]; bounds already checked by the caller"""
        cl, ch = self.conc(lo), self.conc(hi)
        if a.c is not None and cl is not None and ch is not None: return StrV(c=a.c[cl:ch])
        ta = self.sterm(a)
        full = not isinstance(hi, int) and z3.simplify(hi).eq(z3.simplify(slen(ta)))
        if cl == 0 and full: return a
        if full and cl is not None and is_app_of(ta, 'sconcat'):      # suffix of a concatenation whose head has a known length
            hl = self.known_len(ta.arg(0))
            if hl is not None:
                tail = self.tostr(ta.arg(1))
                if cl <= hl: return self.sconcat(self.ssub(self.tostr(ta.arg(0)), cl, hl), tail)
                return self.ssub(tail, cl - hl, self.strlen(tail))
        # prefix of a concatenation whose head has known length
        if cl is not None and ch is not None and is_app_of(ta, 'sconcat'):
            hl = self.known_len(ta.arg(0))
            if hl is not None:
                if ch <= hl: return self.ssub(self.tostr(ta.arg(0)), cl, ch)
                if cl >= hl: return self.ssub(self.tostr(ta.arg(1)), cl - hl, ch - hl)
        if cl == 0 and ch is not None and ch == self.known_len(ta): return a
        t = ssub(ta, self.bv(lo), self.bv(hi))
        self.P.keep.append(ta)
        self.P.g.setdefault('subs', {}).setdefault(ta.get_id(), []).append((self.bv(lo), self.bv(hi), t))
        self.ax(('sub', t.get_id()), slen(t) == self.bv(hi) - self.bv(lo),
                z3.Implies(z3.And(self.bv(lo) == 0, self.bv(hi) == slen(ta)), t == ta))
        if self.ssub_hook is not None: self.ssub_hook(self, t, ta, cl, ch)
        return StrV(t=t)
    ssub_hook = None
    def tostr(self, term):
        for s, (lt, _) in self.lit_tab.items():
            if lt.eq(term): return StrV(c=s)
        return StrV(t=term)
    def known_len(self, term):
        """concrete length of a term if it is known by construction"""
        if z3.is_app(term):
            n = term.decl().name()
            if n == 'sha256': return 32
            if n in ('serpt',): return 33
            if n == 'serptU': return 65
            if n in ('serk',): return 32
            if n == 'schnorr_sig': return 64
            if n == 'bstr': return 1
            if n == 'hexenc':
                k = self.known_len(term.arg(0)); return None if k is None else 2 * k
            if n == 'sconcat':
                a, b = self.known_len(term.arg(0)), self.known_len(term.arg(1))
                return None if a is None or b is None else a + b
            if n == 'ssub':
                lo, hi = self.conc(term.arg(1)), self.conc(term.arg(2))
                return None if lo is None or hi is None else hi - lo
            for s, (lt, _) in self.lit_tab.items():
                if lt.eq(term): return len(s)
        return None
    def fixed_len_ax(self, t):
        k = self.known_len(t)
        if k is not None: self.ax(('len', t.get_id()), slen(t) == k)
    def hex_bridge(self, raw, hx):
        """tie a concretely evaluated hex pair to the uninterpreted symbols (so that symbolic terms equal to them behave)"""
        lr, lh = self.lit(raw), self.lit(hx)
        self.ax(('hexbridge', hx), hexenc(lr) == lh, hexdec(lh) == lr, validhex(lh))
    def hexenc(self, a):
        if a.c is not None:
            hx = a.c.encode('latin-1').hex()
            self.hex_bridge(a.c, hx)
            return StrV(c=hx)
        ta = a.t
        if is_app_of(ta, 'hexdec') and ('canon', ta.arg(0).get_id()) in self.P.axdone: return StrV(t=ta.arg(0))
        t = hexenc(ta)
        self.P.g.setdefault('derived_strs', []).append(t)     # a free string the model makes equal to it is realised through it
        self.fixed_len_ax(ta)
        self.ax(('hexenc', t.get_id()), slen(t) == 2 * slen(ta), z3.ULE(slen(ta), slen(t)), validhex(t), hexdec(t) == ta)
        return StrV(t=t)
    def hexdec_ok(self, a):
        """(validity condition, decoded value) of hex.DecodeString"""
        if a.c is not None:
            if len(a.c) % 2 or any(ch not in '0123456789abcdefABCDEF' for ch in a.c):
                self.ax(('nothex', a.c), z3.Not(validhex(self.lit(a.c))))
                return False, None
            raw = bytes.fromhex(a.c).decode('latin-1')
            if a.c == a.c.lower(): self.hex_bridge(raw, a.c)
            return True, StrV(c=raw)
        ta = a.t
        if is_app_of(ta, 'hexenc'): return True, self.tostr(ta.arg(0))
        t = hexdec(ta)
        self.ax(('hexdec', t.get_id()), z3.Implies(validhex(ta), z3.And(slen(ta) == 2 * slen(t), z3.ULE(slen(t), slen(ta)))),
                z3.Implies(slen(t) == 0, t == self.lit('')))
        return validhex(ta), StrV(t=t)
    def sha256(self, a):
        if a.c is not None:
            import hashlib
            return StrV(c=hashlib.sha256(a.c.encode('latin-1')).digest().decode('latin-1'))
        t = sha256(a.t)
        self.P.g.setdefault('derived_strs', []).append(t)
        self.ax(('sha', t.get_id()), slen(t) == 32)
        return StrV(t=t)
    def sbyte(self, a, i):
        ci = self.conc(i)
        if a.c is not None and ci is not None: return ord(a.c[ci])
        return sbyte(self.sterm(a), self.bv(i))
    def pack(self, elems):
        """list of byte values (python ints / BV8 terms) -> StrV"""
        if all(isinstance(b, int) for b in elems): return StrV(c=''.join(chr(b) for b in elems))
        # whole-term pattern: [sbyte(t,0) .. sbyte(t,n-1)] with len(t) == n
        out = StrV(c=''); i = 0; n = len(elems)
        while i < n:
            b = elems[i]
            if isinstance(b, int):
                j = i
                while j < n and isinstance(elems[j], int): j += 1
                out = self.sconcat(out, StrV(c=''.join(chr(x) for x in elems[i:j]))); i = j; continue
            if is_app_of(b, 'sbyte') and self.conc(b.arg(1)) is not None:
                base = b.arg(0); k0 = self.conc(b.arg(1)); j = i
                while j < n and not isinstance(elems[j], int) and is_app_of(elems[j], 'sbyte') and elems[j].arg(0).eq(base) \
                        and self.conc(elems[j].arg(1)) == k0 + (j - i): j += 1
                self.fixed_len_ax(base)
                out = self.sconcat(out, self.ssub(self.tostr(base), k0, k0 + (j - i))); i = j; continue
            t = bstr(b); self.ax(('bstr', t.get_id()), slen(t) == 1)
            out = self.sconcat(out, StrV(t=t)); i += 1
        return out
    def tobytes(self, v):
        """any Go []byte / string-like value -> StrV"""
        if v is None: return StrV(c='')
        if isinstance(v, StrV): return v
        if isinstance(v, BytesV): return v.s
        if isinstance(v, SliceV): return self.pack(v.elems())
        if isinstance(v, ArrayV): return self.pack(v.e)
        raise Unsupported('tobytes of %r' % (v,))
    def bytes_elems(self, v, n=None):
        """explicit element list of a byte string of concrete length"""
        if isinstance(v, SliceV): return list(v.elems())
        s = self.tobytes(v)
        if s.c is not None: return [ord(ch) for ch in s.c]
        k = self.known_len(s.t) if n is None else n
        if k is None: raise Unsupported('element access to byte string of symbolic length')
        return [sbyte(s.t, z3.BitVecVal(i, 64)) for i in range(k)]

    # ------------------------------------------------------------------ solver / decisions
    def new_path(self, prefix):
        self.P = PathState(prefix)
        self.P.solver.timeout_ms = self.timeout_ms
    def check(self, extra=True, full=False, model=True):
        """is the path condition together with `extra` satisfiable?  full=True returns a model of every
        component of the path condition (needed to extract a replayable counterexample)"""
        t = time.time()
        s = self.P.solver
        x = None if extra is True else extra
        if x is not None and not z3.is_expr(x): x = z3.BoolVal(bool(x))
        if full and x is not None:
            r0, _, why0 = s.check(x)       # cheap refutation first (sliced, bit-vector relaxation)
            if r0 == z3.unsat:
                self.stats['queries'] += 1; self.stats['solver_s'] += time.time() - t
                return False, None
        if full:
            # counterexample extraction: prefer models with short strings so that they can be realised natively
            strs = [t for (k, t) in self.P.nondets.values() if k == 'str' and not isinstance(t, str)]
            for bound in (40, 600, None):
                if bound is None or not strs: r, m, why = s.full_model(x); break
                small = z3.And([z3.ULE(slen(t), bound) for t in strs])
                r, m, why = s.full_model(small if x is None else z3.And(x, small))
                if r == z3.sat: break
        else: r, m, why = s.check(x, need_model=model)
        self.stats['queries'] += 1; self.stats['solver_s'] += time.time() - t
        if r == z3.unknown:
            self.stats['unknown'] += 1
            raise Unsupported('solver unknown: ' + why)
        return r == z3.sat, m
    def assume(self, c):
        if c is True: return
        if c is False: raise PathEnd()
        self.P.solver.add(c); self.P.assumes += 1
    def choose(self, n, feas=None, label=None):
        P = self.P
        if P.dpos < len(P.prefix):
            d = P.prefix[P.dpos]; P.dpos += 1; P.decisions.append(d)
            return d
        opts = []
        for i in range(n):
            c = feas(i) if feas else True
            if c is True: opts.append(i)
            elif c is False: continue
            else:
                ok, _ = self.check(c, model=False)
                if ok: opts.append(i)
        if not opts: raise PathEnd()
        for o in reversed(opts[1:]):
            self.work.append(P.decisions + [o])
        P.dpos += 1; P.decisions.append(opts[0])
        return opts[0]
    def branch(self, c):
        if isinstance(c, bool): return c
        c = z3.simplify(c)
        if z3.is_true(c): return True
        if z3.is_false(c): return False
        P = self.P
        if P.dpos < len(P.prefix):
            d = P.prefix[P.dpos]; P.dpos += 1; P.decisions.append(d)
        else:
            ok0, _ = self.check(c, model=False)
            if not ok0: d = 1
            else:
                ok1, _ = self.check(z3.Not(c), model=False)
                d = 0
                if ok1: self.work.append(P.decisions + [1])
            P.dpos += 1; P.decisions.append(d)
        self.P.solver.add(c if d == 0 else z3.Not(c))
        return d == 0
    def concretize(self, bv, maxn=64, what='value'):
        """fork over the feasible concrete values of an integer"""
        if isinstance(bv, int): return bv
        bv = z3.simplify(bv)
        if z3.is_bv_value(bv): return bv.as_long()
        P = self.P
        if P.dpos < len(P.prefix):
            v = P.prefix[P.dpos]; P.dpos += 1; P.decisions.append(v)
            self.assume(bv == v[1]); return v[1]
        vals = []
        probe = z3.BitVec('@conc', bv.size())
        while len(vals) <= maxn:
            ok, m = self.check(z3.And([probe == bv] + [bv != x for x in vals]))
            if not ok: break
            vals.append(m.eval(bv, model_completion=True).as_long())
        if not vals: raise PathEnd()
        if len(vals) > maxn: raise Unsupported('concretize: more than %d feasible values for %s' % (maxn, what))
        for x in reversed(vals[1:]): self.work.append(P.decisions + [('c', x)])
        P.dpos += 1; P.decisions.append(('c', vals[0]))
        self.assume(bv == vals[0]); return vals[0]
    def label(self, base):
        P = self.P
        k = P.labelcnt.get(base, 0); P.labelcnt[base] = k + 1
        return base if k == 0 else '%s#%d' % (base, k)

    # ------------------------------------------------------------------ memory
    def peek(self, p):
        v = p.box.v
        for k in p.path: v = v.f[k] if isinstance(v, StructV) else v.e[k]
        return v
    def load(self, p):
        if p is None: raise GoPanic('nil pointer dereference')
        if isinstance(p, tuple) and p[0] == 'byteptr': return self.sbyte(p[1], p[2])
        return copyv(self.peek(p))
    def store(self, p, val):
        if p is None: raise GoPanic('nil pointer dereference')
        if isinstance(p, tuple): raise Unsupported('store through pointer into opaque bytes')
        val = copyv(val)
        if not p.path: p.box.v = val; return
        v = p.box.v
        for i in p.path[:-1]:
            v = v.f[i] if isinstance(v, StructV) else v.e[i]
        if isinstance(v, StructV): v.f[p.path[-1]] = val
        else: v.e[p.path[-1]] = val

    # ------------------------------------------------------------------ evaluation
    def const(self, c):
        t = c['t']
        d = self.under(t)[1]
        if c.get('nil'):
            # zero-value constants: also of aggregate types (go/ssa represents T{} of a struct / array type this way)
            return self.zero(t) if d['k'] in ('basic', 'struct', 'array') else None
        if d['k'] == 'basic':
            n = d['name']
            if 'bool' in n: return bool(c['v'])
            if 'string' in n: return StrV(c=c['v'].encode('utf-8').decode('latin-1'))
            if 'float' in n: return float(c['v'])
            b = BITS.get(n) or 64
            return int(c['v']) & ((1 << b) - 1)
        raise Unsupported('const of ' + t)
    def val(self, fr, o):
        if o is None: return None
        k = o['k']
        if k == 'reg' or k == 'param': return fr.regs[o['n']]
        if k == 'const':
            v = o.get('_v', self)
            if v is self:
                v = self.const(o)
                if v is None or isinstance(v, (int, bool, float)): o['_v'] = v      # aggregates are fresh per use
                else: return v
            return v
        if k == 'free': return fr.free[o['n']]
        if k == 'global': return Ptr(self.global_box(o['n'], o.get('t')))
        if k == 'func': return FuncV(o['n'])
        if k == 'builtin': return FuncV('builtin:' + o['n'])
        raise Unsupported(k)
    def global_box(self, name, ptrtype=None):
        b = self.globals.get(name)
        if b is None:
            z = None
            if ptrtype is not None:
                d = self.types.get(ptrtype)
                if d and d['k'] == 'ptr': z = self.zero(d['elem'])
            lz = self.lazy_globals.get(name)
            if lz is not None: z = lz(self)
            b = self.globals[name] = Box(z, name)
        return b
    lazy_globals = {}

    def bnot(self, x):
        return (not x) if isinstance(x, bool) else z3.Not(x)
    def band(self, *xs):
        if any(x is False for x in xs): return False
        xs = [x for x in xs if x is not True]
        if not xs: return True
        return xs[0] if len(xs) == 1 else z3.And(xs)
    def bor(self, *xs):
        if any(x is True for x in xs): return True
        xs = [x for x in xs if x is not False]
        if not xs: return False
        return xs[0] if len(xs) == 1 else z3.Or(xs)
    def beq(self, x, y):
        if isinstance(x, bool) and isinstance(y, bool): return x == y
        if isinstance(x, bool): return y if x else z3.Not(y)
        if isinstance(y, bool): return x if y else z3.Not(x)
        return x == y
    def tobool(self, x):
        return z3.BoolVal(x) if isinstance(x, bool) else x
    def ite(self, c, a, b):
        """merge two values of a basic type"""
        if isinstance(c, bool): return a if c else b
        if isinstance(a, StrV):
            if a.c is not None and b.c is not None and a.c == b.c: return a
            return StrV(t=z3.If(c, self.sterm(a), self.sterm(b)))
        if isinstance(a, bool) or isinstance(b, bool) or z3.is_bool(a) or z3.is_bool(b):
            return z3.If(c, self.tobool(a), self.tobool(b))
        if isinstance(a, int) and isinstance(b, int):
            if a == b: return a
            raise Unsupported('ite of two concrete ints needs a width')   # callers pass z3 values
        return z3.If(c, a, b)

    def binop(self, i, x, y):
        tok = i['tok']; xt = i['xt']
        d = self.under(xt)[1]
        k = d['k']
        if k == 'basic':
            n = d['name']
            if 'string' in n:
                if tok == '==': return self.streq(x, y)
                if tok == '!=': return self.bnot(self.streq(x, y))
                if tok == '+': return self.sconcat(x, y)
                if x.c is not None and y.c is not None:
                    return {'<': x.c < y.c, '<=': x.c <= y.c, '>': x.c > y.c, '>=': x.c >= y.c}[tok]
                raise Unsupported('string op ' + tok)
            if 'bool' in n:
                if tok == '==': return self.beq(x, y)
                if tok == '!=': return self.bnot(self.beq(x, y))
                raise Unsupported('bool op ' + tok)
            if 'float' in n or isinstance(x, float) or isinstance(y, float):
                return {'+': lambda: x + y, '-': lambda: x - y, '*': lambda: x * y, '/': lambda: x / y, '<': lambda: x < y, '>': lambda: x > y,
                        '<=': lambda: x <= y, '>=': lambda: x >= y, '==': lambda: x == y, '!=': lambda: x != y}[tok]()
            w = BITS.get(n) or 64
            s = n in SIGNED
            return self.intop(tok, x, y, w, s, i)
        if tok in ('==', '!='):
            r = self.refeq(x, y)
            return r if tok == '==' else self.bnot(r)
        raise Unsupported('binop %s on %s' % (tok, xt))

    def intop(self, tok, x, y, w, s, i=None):
        mask = (1 << w) - 1
        if isinstance(x, int) and isinstance(y, int):
            if tok == '+': return (x + y) & mask
            if tok == '-': return (x - y) & mask
            if tok == '*': return (x * y) & mask
            if tok == '&': return x & y
            if tok == '|': return x | y
            if tok == '^': return x ^ y
            if tok == '&^': return x & ~y & mask
            if tok == '==': return x == y
            if tok == '!=': return x != y
            if tok in ('<', '<=', '>', '>='):
                a, b = (sgn(x, w), sgn(y, w)) if s else (x, y)
                return {'<': a < b, '<=': a <= b, '>': a > b, '>=': a >= b}[tok]
            if tok == '<<': return (x << y) & mask if y < w else 0
            if tok == '>>':
                if s: return (sgn(x, w) >> min(y, w)) & mask
                return x >> y if y < w else 0
            if tok in ('/', '%'):
                if y == 0: raise GoPanic('integer divide by zero')
                if s:
                    a, b = sgn(x, w), sgn(y, w)
                    q = abs(a) // abs(b) * (1 if (a < 0) == (b < 0) else -1)
                    return (q if tok == '/' else a - q * b) & mask
                return x // y if tok == '/' else x % y
            raise Unsupported('intop ' + tok)
        if tok in ('<<', '>>'):
            yw = y.size() if not isinstance(y, int) else w
            X = self.bv(x, w); Y = self.bv(y, w)
            if not isinstance(y, int) and yw != w:
                Y = z3.ZeroExt(w - yw, y) if yw < w else None
                if Y is None:
                    big = z3.UGE(y, w); Y = z3.Extract(w - 1, 0, y)
                else: big = z3.UGE(Y, w)
            else: big = z3.UGE(Y, w)
            if tok == '<<': return z3.If(big, z3.BitVecVal(0, w), X << Y)
            if s: return z3.If(big, X >> z3.BitVecVal(w - 1, w), X >> Y)
            return z3.If(big, z3.BitVecVal(0, w), z3.LShR(X, Y))
        X = self.bv(x, w); Y = self.bv(y, w)
        if tok in ('/', '%'):
            if isinstance(y, int) and not s and y > 0:
                # unsigned division by a constant: definitional expansion x = q*c + r, r < c (a multiplication by a
                # constant instead of a division circuit; measured: the latter does not finish in the bit-blaster)
                if y == 1: return X if tok == '/' else 0
                key = ('udiv', X.get_id(), y)
                qr = self.P.g.setdefault('udivs', {}).get(key)
                if qr is None:
                    k = self.P.g['udivcnt'] = self.P.g.get('udivcnt', 0) + 1
                    # narrow the multiplier when the dividend is provably small on this path (bit-blasted multipliers
                    # of full width with a constant do not finish; measured)
                    nw = w
                    for cand in (16, 24, 32, 40, 48):
                        if cand >= w: break
                        ok, _ = self.check(z3.UGE(X, z3.BitVecVal(1 << cand, w)))
                        if not ok: nw = cand; break
                    if nw < w:
                        Xn = z3.simplify(z3.Extract(nw - 1, 0, X))
                        qn = z3.BitVec('udq%d' % k, nw); rn = z3.BitVec('udr%d' % k, nw)
                        cb = y.bit_length()
                        # canonical widening product (shared, syntactically, with the oracle integers of the harness API)
                        prod = z3.ZeroExt(cb, qn) * z3.BitVecVal(y, nw + cb)
                        self.P.solver.add(z3.ULT(rn, y) if y < (1 << nw) else z3.BoolVal(True), z3.ZeroExt(cb, Xn) == prod + z3.ZeroExt(cb, rn))
                        q = z3.ZeroExt(w - nw, qn); r = z3.ZeroExt(w - nw, rn)
                    else:
                        q = z3.BitVec('udq%d' % k, w); r = z3.BitVec('udr%d' % k, w)
                        self.P.solver.add(z3.ULE(q, mask // y), z3.ULT(r, y), X == q * y + r, z3.ULE(r, X))
                    qr = self.P.g['udivs'][key] = (q, r, X)
                return qr[0] if tok == '/' else qr[1]
            if self.branch(Y == 0): raise GoPanic('integer divide by zero')
            if tok == '/': return (X / Y) if s else z3.UDiv(X, Y)
            return z3.SRem(X, Y) if s else z3.URem(X, Y)
        if tok == '+': return X + Y
        if tok == '-': return X - Y
        if tok == '*': return X * Y
        if tok == '&': return X & Y
        if tok == '|': return X | Y
        if tok == '^': return X ^ Y
        if tok == '&^': return X & ~Y
        if tok == '==': return X == Y
        if tok == '!=': return X != Y
        if tok == '<': return (X < Y) if s else z3.ULT(X, Y)
        if tok == '<=': return (X <= Y) if s else z3.ULE(X, Y)
        if tok == '>': return (X > Y) if s else z3.UGT(X, Y)
        if tok == '>=': return (X >= Y) if s else z3.UGE(X, Y)
        raise Unsupported('intop ' + tok)

    def refeq(self, x, y):
        if x is None or y is None:
            if isinstance(x, BytesV) or isinstance(y, BytesV): return False
            return x is None and y is None
        if isinstance(x, IfaceV) and isinstance(y, IfaceV):
            if x.t != y.t: return False
            return self.valeq(x.v, y.v)
        if isinstance(x, Ptr): return x == y
        if isinstance(x, (SliceV, MapV, ChanV)): return x is y
        if isinstance(x, FuncV): return x is y
        return self.valeq(x, y)
    def valeq(self, x, y):
        if isinstance(x, StrV): return self.streq(x, y)
        if isinstance(x, StructV):
            return self.band(*[self.valeq(a, b) for a, b in zip(x.f, y.f)])
        if isinstance(x, ArrayV):
            return self.band(*[self.valeq(a, b) for a, b in zip(x.e, y.e)])
        if isinstance(x, bool) or isinstance(y, bool) or z3.is_bool(x) or z3.is_bool(y): return self.beq(x, y)
        if isinstance(x, int) and isinstance(y, int): return x == y
        if isinstance(x, float): return x == y
        if z3.is_expr(x) or z3.is_expr(y): return x == y
        if x is None or y is None: return x is None and y is None
        if isinstance(x, Ptr): return x == y
        if isinstance(x, IfaceV): return self.refeq(x, y)
        if isinstance(x, Opaque):
            f = self.opaque_eq.get(x.kind)
            if f: return f(self, x, y)
        return x is y
    opaque_eq = {}

    def convert(self, v, src, dst):
        sd = self.under(src)[1]; dd = self.under(dst)[1]
        if sd['k'] == 'basic' and dd['k'] == 'basic':
            sn, dn = sd['name'], dd['name']
            if 'string' in sn and 'string' in dn: return v
            sb, db = BITS.get(sn), BITS.get(dn)
            if sb and db:
                ss = sn in SIGNED
                if isinstance(v, int):
                    if db >= sb and ss: return sgn(v, sb) & ((1 << db) - 1)
                    return v & ((1 << db) - 1)
                if db == sb: return v
                if db < sb: return z3.Extract(db - 1, 0, v)
                return z3.SignExt(db - sb, v) if ss else z3.ZeroExt(db - sb, v)
            if sb and 'float' in dn:
                c = self.conc(v)
                if c is None: raise Unsupported('symbolic int->float')
                return float(sgn(c, sb) if sn in SIGNED else c)
            if 'float' in sn and db: return int(v) & ((1 << db) - 1)
            if 'float' in sn and 'float' in dn: return v
            if sb and 'string' in dn:   # string(rune)
                c = self.conc(v)
                if c is not None: return StrV(c=chr(c).encode('utf-8').decode('latin-1'))
        if dd['k'] == 'slice' and sd['k'] == 'basic':   # []byte(string)
            return BytesV(v)
        if dd['k'] == 'basic' and sd['k'] == 'slice':   # string([]byte)
            return self.tobytes(v)
        if dd['k'] == 'slice' and sd['k'] == 'slice': return v
        raise Unsupported('convert %s -> %s' % (src, dst))

    # ------------------------------------------------------------------ calls
    def find_intr(self, name):
        f = self.intr.get(name)
        if f is not None: return f
        for pfx, fn in self.prefix_intr:
            if name.startswith(pfx): return fn
        return None
    def call_fn(self, fv, args):
        name = fv.name
        f = self.find_intr(name)
        if f is not None:
            return ('ret', f(self, args))
        fn = self.funcs.get(name)
        if fn is None or not fn['blocks']:
            if name.endswith('.init'): return ('ret', None)
            raise Unsupported('no body/model: ' + name)
        self.stats['funcs'].add(name)
        fr = Frame(fn)
        for p, a in zip(fn['params'], args): fr.regs[p['n']] = a
        for fvn, b in zip(fn['free'], fv.bind): fr.free[fvn['n']] = b
        return ('push', fr)
    def call(self, fv, args):
        """synchronous call (used by models for callbacks and by defers)"""
        if isinstance(fv, str): fv = FuncV(fv)
        if fv.name.startswith('builtin:'): return self.builtin(fv.name[8:], args, None)
        r = self.call_fn(fv, args)
        if r[0] == 'ret': return r[1]
        return self.run_frames([r[1]])
    def invoke_target(self, recv, mname, iface):
        tgt = self.methods.get(recv.t, {}).get(mname)
        if tgt is not None and (tgt in self.funcs or self.find_intr(tgt) is not None): return tgt
        key = 'invoke:%s.%s' % (iface, mname)
        if key in self.intr: return key
        key2 = 'method:%s.%s' % (recv.t, mname)
        if key2 in self.intr: return key2
        raise Unsupported('invoke %s.%s on dynamic type %s' % (iface, mname, recv.t))
    def invoke(self, recv, mname, args, iface=''):
        """synchronous interface method call"""
        if recv is None: raise GoPanic('nil interface method call')
        tgt = self.invoke_target(recv, mname, iface)
        if tgt.startswith('invoke:') or tgt.startswith('method:'): return self.intr[tgt](self, [recv] + list(args))
        return self.call(FuncV(tgt), [recv.v] + list(args))

    def run_frames(self, stack, thread=None):
        retval = None
        base = len(stack)
        funcs = self.funcs
        while stack:
            fr = stack[-1]
            blk = fr.fn['blocks'][fr.blk]
            if fr.ip == 0 and blk['phis'] and fr.prev >= 0:
                idx = blk['preds'].index(fr.prev)
                vals = [self.val(fr, p['edges'][idx]) for p in blk['phis']]
                for p, v in zip(blk['phis'], vals): fr.regs[p['name']] = v
                fr.ip = len(blk['phis'])
            i = blk['instrs'][fr.ip]
            if thread is not None and i.get('sched'):
                if not thread['resumed']:
                    thread['at'] = i['sched']; thread['pos'] = i.get('pos')
                    return 'yield'
                thread['resumed'] = False
            fr.ip += 1
            self.stats['instrs'] += 1
            if 'pos' in i: self._last_pos = i['pos']
            try:
                res = self.step(fr, i, i['op'])
            except GoPanic as gp:
                self.on_panic(gp, i, fr); raise PathEnd()
            if res is not None:
                kind = res[0]
                if kind == 'jump':
                    if self.unwind is not None and res[1] <= fr.blk:      # back edge: unwinding bound (stated per harness)
                        c = fr.loops = getattr(fr, 'loops', None) or {}
                        c[res[1]] = c.get(res[1], 0) + 1
                        if c[res[1]] > self.unwind:
                            self.stats['unwound'] = self.stats.get('unwound', 0) + 1
                            raise PathEnd()
                    fr.prev = fr.blk; fr.blk = res[1]; fr.ip = 0
                elif kind == 'return':
                    stack.pop()
                    if stack:
                        caller = stack[-1]
                        ci = caller.fn['blocks'][caller.blk]['instrs'][caller.ip - 1]
                        if 'name' in ci: caller.regs[ci['name']] = res[1]
                    else: retval = res[1]
                elif kind == 'push':
                    stack.append(res[1])
                elif kind == 'block':     # thread blocks on a channel op: retry the instruction later
                    fr.ip -= 1
                    if thread is None: raise Unsupported('blocking channel operation outside a thread')
                    thread['blocked'] = res[1]
                    return 'blocked'
        return retval

    def on_panic(self, gp, i, fr):
        if self.panic_mode != 'obligation': return
        label = 'panic: %s @ %s' % (gp.msg, fr.fn['name'])
        self.report(label, True, kind='panic', pos=i.get('pos'))

    # violation reporting with known-finding split (DESIGN.md 6)
    def report(self, label, cond_violation, kind='assert', pos=None):
        """cond_violation: formula that, together with the path condition, witnesses a violation"""
        st = self.stats['asserts'].setdefault(label, dict(checked=0, failed=0, known=0))
        st['checked'] += 1
        preds = [k for k in self.known if k['match'](label)]
        knownf = []
        for k in preds:
            f = k['formula'](self)
            if f is not None: knownf.append((k, f))
        cv = cond_violation
        base = [] if cv is True else [cv]
        if cv is False: return False
        # 1. violations outside every known-finding predicate
        extra = base + [z3.Not(self.tobool(f)) for _, f in knownf]
        ok, m = self.check(z3.And(extra) if extra else True, full=True)
        if ok:
            st['failed'] += 1
            self.stats['violations'].append(dict(kind=kind, label=label, pos=pos, script=self.script(m), decisions=list(self.P.decisions),
                                                 trace=list(self.P.trace)))
            return True
        # 2. known findings that still manifest
        for k, f in knownf:
            ok, m = self.check(z3.And(base + [self.tobool(f)]), full=True)
            if ok:
                st['known'] += 1
                h = self.stats['known_hits'].setdefault(k['id'], dict(count=0, script=None))
                h['count'] += 1
                if h['script'] is None: h['script'] = self.script(m)
                return True
        return False

    def script(self, m):
        from .script import realize
        return realize(self, m)

    def step(self, fr, i, op):
        R = fr.regs
        V = self.val
        if op == 'UnOp':
            x = V(fr, i['x']); tok = i['tok']
            if tok == '*': R[i['name']] = self.load(x)
            elif tok == '!': R[i['name']] = self.bnot(x)
            elif tok == '-':
                if isinstance(x, float): R[i['name']] = -x
                else:
                    w = self.bits(i['type']) or 64
                    R[i['name']] = (-x) & ((1 << w) - 1) if isinstance(x, int) else -x
            elif tok == '^':
                w = self.bits(i['type']) or 64
                R[i['name']] = (~x) & ((1 << w) - 1) if isinstance(x, int) else ~x
            elif tok == '<-':
                return self.chan_recv(fr, i, x)
            else: raise Unsupported('unop ' + tok)
        elif op == 'FieldAddr':
            p = V(fr, i['x'])
            if p is None: raise GoPanic('nil pointer dereference')
            R[i['name']] = Ptr(p.box, p.path + (i['i'],))
        elif op == 'Call':
            c = i['call']
            args = [V(fr, a) for a in c['args']]
            if 'invoke' in c:
                recv = V(fr, c['recv'])
                if recv is None: raise GoPanic('nil interface method call')
                tgt = self.invoke_target(recv, c['invoke'], c['iface'])
                if tgt.startswith('invoke:') or tgt.startswith('method:'):
                    R[i['name']] = self.intr[tgt](self, [recv] + args); return None
                fv = FuncV(tgt); args = [recv.v] + args
            else:
                fv = V(fr, c['fn'])
                if fv is None: raise GoPanic('call of nil function')
                if fv.name.startswith('builtin:'):
                    R[i['name']] = self.builtin(fv.name[8:], args, i); return None
            r = self.call_fn(fv, args)
            if r[0] == 'ret': R[i['name']] = r[1]
            else: return r
        elif op == 'Store':
            self.store(V(fr, i['addr']), V(fr, i['val']))
        elif op == 'Return':
            rs = [V(fr, r) for r in i['results']]
            return ('return', rs[0] if len(rs) == 1 else (tuple(rs) if rs else None))
        elif op == 'BinOp':
            R[i['name']] = self.binop(i, V(fr, i['x']), V(fr, i['y']))
        elif op == 'If':
            t = self.branch(V(fr, i['cond']))
            return ('jump', fr.fn['blocks'][fr.blk]['succs'][0 if t else 1])
        elif op == 'Extract':
            R[i['name']] = V(fr, i['x'])[i['i']]
        elif op == 'Alloc':
            R[i['name']] = Ptr(Box(self.zero(i['elem']), i['name']))
        elif op == 'IndexAddr':
            x = V(fr, i['x']); idx = V(fr, i['y'])
            k = self.kind(i['xt'])
            if k == 'slice':
                if isinstance(x, BytesV):
                    n = self.strlen(x.s)
                    self.bounds(idx, n)
                    R[i['name']] = ('byteptr', x.s, idx)
                else:
                    n = x.len if x is not None else 0
                    kk = self.index(idx, n)
                    R[i['name']] = Ptr(x.arr, (x.off + kk,))
            else:  # pointer to array
                if x is None: raise GoPanic('nil pointer dereference')
                n = len(self.peek(x).e)
                kk = self.index(idx, n)
                R[i['name']] = Ptr(x.box, x.path + (kk,))
        elif op == 'MakeInterface':
            R[i['name']] = IfaceV(i['xt'], V(fr, i['x']))
        elif op == 'Jump':
            return ('jump', fr.fn['blocks'][fr.blk]['succs'][0])
        elif op == 'Slice':
            R[i['name']] = self.do_slice(fr, i)
        elif op == 'Phi':
            pass
        elif op == 'RunDefers':
            while fr.defers:
                fv, args, inv = fr.defers.pop()
                if inv is not None: self.invoke(fv, inv[0], args, inv[1])
                else: self.call(fv, args)
        elif op in ('ChangeInterface', 'ChangeType'):
            R[i['name']] = V(fr, i['x'])
        elif op == 'Convert':
            R[i['name']] = self.convert(V(fr, i['x']), i['xt'], i['type'])
        elif op == 'MakeClosure':
            R[i['name']] = FuncV(i['fn']['n'], tuple(V(fr, b) for b in i['bindings']))
        elif op == 'Lookup':
            x = V(fr, i['x']); k = V(fr, i['y'])
            d = self.under(i['xt'])[1]
            if d['k'] == 'map':
                R[i['name']] = self.map_lookup(x, k, d, i['commaok'])
            else:   # string index
                n = self.strlen(x); self.bounds(k, n)
                R[i['name']] = self.sbyte(x, k)
        elif op == 'MapUpdate':
            m = V(fr, i['m']); k = V(fr, i['key']); v = V(fr, i['val'])
            if m is None: raise GoPanic('assignment to entry in nil map')
            self.map_update(m, k, v)
        elif op == 'Defer':
            c = i['call']; args = [V(fr, a) for a in c['args']]
            if 'invoke' in c: fr.defers.append((V(fr, c['recv']), args, (c['invoke'], c['iface'])))
            else: fr.defers.append((V(fr, c['fn']), args, None))
        elif op == 'MakeSlice':
            n = self.concretize(V(fr, i['len']), what='make len'); c = self.concretize(V(fr, i['cap']), what='make cap')
            if n >= 1 << 63 or c >= 1 << 63 or n > c: raise GoPanic('makeslice: len out of range')
            if c > 100000: raise Unsupported('huge make')
            d = self.under(i['type'])[1]
            R[i['name']] = SliceV(Box(ArrayV([self.zero(d['elem']) for _ in range(c)])), 0, n, c)
        elif op == 'MakeMap':
            R[i['name']] = MapV()
        elif op == 'Range':
            x = V(fr, i['x'])
            if self.kind(i['xt']) == 'map':
                R[i['name']] = ['iter', list(x.ents) if x is not None else [], 0]
            else:
                s = x
                if s.c is None: raise Unsupported('range over symbolic string')
                R[i['name']] = ['siter', s.c, 0]
        elif op == 'Next':
            it = V(fr, i['x'])
            if it[0] == 'iter':
                if it[2] < len(it[1]):
                    e = it[1][it[2]]; it[2] += 1
                    R[i['name']] = (True, e[0], copyv(e[1]))
                else: R[i['name']] = (False, None, None)
            else:
                if it[2] < len(it[1]):
                    k = it[2]; it[2] += 1
                    R[i['name']] = (True, k, ord(it[1][k]))
                else: R[i['name']] = (False, 0, 0)
        elif op == 'TypeAssert':
            x = V(fr, i['x']); at = i['asserted']
            d = self.under(at)[1]
            if d['k'] == 'iface':
                ok = x is not None and all(mn in self.methods.get(x.t, {}) for mn in (d['methods'] or []))
                v = x if ok else None
            else:
                ok = x is not None and x.t == at
                v = x.v if ok else self.zero(at)
            if i['commaok']: R[i['name']] = (v, ok)
            else:
                if not ok: raise GoPanic('interface conversion: type assertion failed')
                R[i['name']] = v
        elif op == 'Field':
            R[i['name']] = copyv(V(fr, i['x']).f[i['i']])
        elif op == 'Index':
            x = V(fr, i['x']); idx = V(fr, i['y'])
            if isinstance(x, StrV):
                self.bounds(idx, self.strlen(x)); R[i['name']] = self.sbyte(x, idx)
            else:
                kk = self.index(idx, len(x.e)); R[i['name']] = copyv(x.e[kk])
        elif op == 'Panic':
            x = V(fr, i['x'])
            raise GoPanic('explicit panic')
        elif op == 'Go':
            return self.do_go(fr, i)
        elif op == 'MakeChan':
            R[i['name']] = ChanV(self.concretize(V(fr, i['x'])))
        elif op == 'Send':
            return self.chan_send(fr, i, V(fr, i['chan']), V(fr, i['x']))
        elif op == 'Select':
            return self.do_select(fr, i)
        elif op == 'SliceToArrayPointer':
            raise Unsupported('SliceToArrayPointer')
        elif op == 'DebugRef':
            pass
        else:
            raise Unsupported('op ' + op)
        return None

    # ---- concurrency hooks (filled in by models/threads.py)
    def do_go(self, fr, i): return None
    def chan_send(self, fr, i, ch, v): raise Unsupported('chan send')
    def chan_recv(self, fr, i, ch): raise Unsupported('chan recv')
    def do_select(self, fr, i): raise Unsupported('select')

    def bounds(self, idx, n):
        """index obligation 0 <= idx < n (both possibly symbolic)"""
        if isinstance(idx, int) and isinstance(n, int):
            if not (0 <= idx < n) or idx >= 1 << 63: raise GoPanic('index out of range')
            return
        if self.branch(z3.Not(z3.ULT(self.bv(idx), self.bv(n)))): raise GoPanic('index out of range')
    def index(self, idx, n):
        if isinstance(idx, int):
            if idx >= n: raise GoPanic('index out of range [%d] with length %d' % (idx, n))
            return idx
        if self.branch(z3.UGE(idx, n)): raise GoPanic('index out of range')
        return self.concretize(idx, what='index')

    def map_lookup(self, x, k, d, commaok):
        ents = x.ents if x is not None else []
        zero = self.zero(d['elem'])
        basic = self.kind(d['elem']) == 'basic' and self.bits(d['elem']) is None   # bool / string values merge with ite
        found = None
        if basic and len(ents) <= 8 and not isinstance(zero, float):
            conds = [self.valeq(e[0], k) for e in ents]
            if all(isinstance(c, bool) for c in conds):
                for c, e in zip(conds, ents):
                    if c: found = e
            else:
                v = zero; ok = False
                for c, e in reversed(list(zip(conds, ents))):
                    v = self.ite(c, e[1], v) if not isinstance(c, bool) else (e[1] if c else v)
                    ok = self.bor(c, ok)
                return (v, ok) if commaok else v
        else:
            for e in ents:
                if self.branch(self.valeq(e[0], k)): found = e; break
        v = copyv(found[1]) if found else zero
        return (v, found is not None) if commaok else v
    def map_update(self, m, k, v):
        for e in m.ents:
            if self.branch(self.valeq(e[0], k)):
                e[1] = copyv(v); return
        m.ents.append([k, copyv(v)])

    def do_slice(self, fr, i):
        x = self.val(fr, i['x']); lo = self.val(fr, i['lo']); hi = self.val(fr, i['hi'])
        k = self.kind(i['xt'])
        if k == 'basic' or isinstance(x, BytesV):  # string or opaque bytes
            s = x.s if isinstance(x, BytesV) else x
            n = self.strlen(s)
            l = 0 if lo is None else lo
            h = n if hi is None else hi
            if isinstance(l, int) and isinstance(h, int) and isinstance(n, int):
                if not (0 <= l <= h <= n): raise GoPanic('slice bounds out of range')
            else:
                if self.branch(z3.Not(z3.And(z3.ULE(self.bv(l), self.bv(h)), z3.ULE(self.bv(h), self.bv(n))))):
                    raise GoPanic('slice bounds out of range')
            r = self.ssub(s, l, h)
            return BytesV(r) if isinstance(x, BytesV) else r
        if k == 'slice':
            if x is None: x = SliceV(Box(ArrayV([])), 0, 0, 0)
            l = 0 if lo is None else self.concretize(lo, what='slice lo')
            h = x.len if hi is None else self.concretize(hi, what='slice hi')
            if not (0 <= l <= h <= x.cap) or h >= 1 << 63: raise GoPanic('slice bounds out of range')
            return SliceV(x.arr, x.off + l, h - l, x.cap - l)
        if k == 'ptr':  # *array
            if x is None: raise GoPanic('nil pointer dereference')
            arr = self.peek(x); n = len(arr.e)
            l = 0 if lo is None else self.concretize(lo)
            h = n if hi is None else self.concretize(hi)
            if not (0 <= l <= h <= n): raise GoPanic('slice bounds out of range')
            if x.path:   # array nested in a struct: view through a fresh box sharing the list object
                b = Box(arr, 'arrview')
                return SliceV(b, l, h - l, n - l)
            return SliceV(x.box, l, h - l, n - l)
        raise Unsupported('slice of ' + i['xt'])

    def builtin(self, n, args, i):
        if n == 'len':
            x = args[0]
            if x is None: return 0
            if isinstance(x, SliceV): return x.len
            if isinstance(x, StrV): return self.strlen(x)
            if isinstance(x, BytesV): return self.strlen(x.s)
            if isinstance(x, MapV): return len(x.ents)
            if isinstance(x, ChanV): return len(x.buf)
            if isinstance(x, ArrayV): return len(x.e)
            raise Unsupported('len of %r' % (x,))
        if n == 'cap':
            x = args[0]
            if x is None: return 0
            if isinstance(x, SliceV): return x.cap
            raise Unsupported('cap')
        if n == 'append':
            s, t = args
            if t is None: return s
            if isinstance(t, StrV): t = BytesV(t)
            if isinstance(s, BytesV) or isinstance(t, BytesV):
                if isinstance(t, BytesV) and t.s.c is not None and (s is None or isinstance(s, SliceV)):
                    t = mkslice([ord(ch) for ch in t.s.c])      # concrete bytes appended to an element slice
                else:
                    return BytesV(self.sconcat(self.tobytes(s), self.tobytes(t)))
            if s is None: s = SliceV(Box(ArrayV([])), 0, 0, 0)
            src = [copyv(v) for v in t.elems()]
            if s.len + len(src) <= s.cap:   # in place
                for k, v in enumerate(src): s.arr.v.e[s.off + s.len + k] = v
                return SliceV(s.arr, s.off, s.len + len(src), s.cap)
            new = [copyv(v) for v in s.elems()] + src
            return SliceV(Box(ArrayV(new)), 0, len(new), len(new))
        if n == 'copy':
            d, s = args
            if d is None or s is None: return 0
            if isinstance(s, (StrV, BytesV)):
                src = self.bytes_elems(s)
            else: src = [copyv(v) for v in s.elems()]
            k = min(d.len, len(src))
            for j in range(k): d.arr.v.e[d.off + j] = src[j]
            return k
        if n == 'delete':
            m, k = args
            if m is None: return None
            for e in list(m.ents):
                if self.branch(self.valeq(e[0], k)): m.ents.remove(e); break
            return None
        if n == 'ssa:wrapnilchk':
            if args[0] is None: raise GoPanic('value method called using nil pointer')
            return args[0]
        if n == 'min' or n == 'max':
            a, b = args
            if isinstance(a, int) and isinstance(b, int): return min(a, b) if n == 'min' else max(a, b)
            raise Unsupported('symbolic min/max')
        if n == 'close':
            args[0].closed = True; return None
        if n == 'panic': raise GoPanic('explicit panic')
        if n == 'print' or n == 'println': return None
        raise Unsupported('builtin ' + n)

    # ------------------------------------------------------------------ driver
    def run_inits(self):
        for p in self.ir['pkgs']:
            nm = p + '.init'
            if nm in self.funcs:
                try: self.call(FuncV(nm), [])
                except Unsupported as e:
                    raise Unsupported('in %s: %s' % (nm, e))
    def run_path(self, entry, prefix):
        """execute one path; returns nothing, appends to self.work / self.stats"""
        self.new_path(prefix)
        self.globals = {}
        for h in self.path_hooks: h(self)
        try:
            self.run_inits()
            self.call(FuncV(entry), [])
            self.stats['completed'] = self.stats.get('completed', 0) + 1
            rl = self.P.g.get('reached', [])
            seen = self.stats.setdefault('sampled_labels', set())
            if rl and len(self.stats['samples']) < 4 and rl[-1] not in seen:
                ok, m = self.check(full=True)        # a complete input of a path that ran to the end of the harness
                if ok:
                    seen.add(rl[-1]); self.stats['samples'].append(dict(reached=rl[-1], inputs=self.script(m)))
        except PathEnd:
            pass
        except RecursionError:
            self.stats['unsupported'].append(dict(msg='python recursion limit', decisions=list(self.P.decisions)))
        except Unsupported as e:
            self.stats['unsupported'].append(dict(msg=str(e), decisions=list(self.P.decisions)))
        except Exception as e:
            import traceback
            tb = traceback.format_exc()
            self.stats['unsupported'].append(dict(msg='engine error: %s: %s @ %s' % (type(e).__name__, str(e)[:300], self.where()), decisions=list(self.P.decisions), tb=tb[-3000:]))
        self.stats['paths'] += 1
    def where(self):
        return getattr(self, '_last_pos', None)
    path_hooks = []
    def explore(self, entry, prefixes=None, limit=10 ** 9, deadline=None):
        self.work = list(reversed(prefixes)) if prefixes else [[]]
        t0 = time.time()
        while self.work and self.stats['paths'] < limit:
            if deadline and time.time() > deadline:
                self.stats['timeout'] = True; break
            self.run_path(entry, self.work.pop())
        self.stats['leftover'] = len(self.work)
        self.stats['wall_s'] = time.time() - t0
        return self.stats
