# Check driver: front end, exploration over a process pool, replay of counterexamples against the
# real build, known-findings handling, evidence files.
import json, os, sys, time, subprocess, hashlib, glob, shutil, re, multiprocessing, traceback, tempfile
import z3

VERIF = os.path.dirname(os.path.dirname(os.path.abspath(__file__)))
REPO = os.environ.get('VERIF_REPO', '/repo')
MOD = 'github.com/elnosh/gonuts'
GOENV = dict(os.environ, GOFLAGS='-mod=mod', GOPROXY='off')
CACHE = os.path.join(VERIF, '.cache')

def log(*a):
    print(*a, file=sys.stderr, flush=True)

class Harness:
    """one harness = one entry function explored symbolically"""
    def __init__(self, name, pkg, files, models=('std', 'crypto'), summaries=(), panic_mode='ignore', sched=False,
                 bounds='', load=None, timeout_s=1500, go_mode='ignore', setup=None, must_reach=(), assumptions=(), split_depth=None, crypto_mode='alg', unwind=None, salt_retries=False):
        self.name = name            # Go function name
        self.pkg = pkg              # package dir relative to the module root, e.g. 'cashu'
        self.files = list(files)    # harness sources under /verif/harness/<pkg>/
        self.models = models
        self.summaries = summaries  # repo functions replaced by summaries, see models/summaries.py
        self.panic_mode = panic_mode
        self.sched = sched
        self.bounds = bounds
        self.load = load or []      # extra package patterns to load
        self.timeout_s = timeout_s
        self.go_mode = go_mode
        self.setup = setup
        self.must_reach = must_reach
        self.assumptions = list(assumptions)
        self.split_depth = split_depth
        self.crypto_mode = crypto_mode
        self.unwind = unwind
        self.salt_retries = salt_retries
    @property
    def entry(self): return '%s/%s.%s' % (MOD, self.pkg, self.name)

def overlays_for(harnesses, native=False):
    """virtual path -> real path"""
    ov = {}
    rt = 'rt_native.go' if native else 'rt_sym.go'
    ov[os.path.join(REPO, 'verifrt', 'rt.go')] = os.path.join(VERIF, 'harness', 'rt', rt)
    for h in harnesses:
        for f in h.files:
            ov[os.path.join(REPO, f)] = os.path.join(VERIF, 'harness', f)
    return ov

def frontend(harnesses, out, extra_overlays=None):
    pkgs = set()
    for h in harnesses:
        pkgs.add('%s/%s' % (MOD, h.pkg))
        for p in h.load: pkgs.add(p)
        pkgs |= {MOD + '/cashu/...', MOD + '/crypto'}
        if h.pkg.startswith('mint'): pkgs.add(MOD + '/mint/...')
        if h.pkg.startswith('wallet'): pkgs |= {MOD + '/wallet/...', MOD + '/mint/...'}
    ov = overlays_for(harnesses)
    if extra_overlays: ov.update(extra_overlays)
    cmd = [os.path.join(VERIF, 'bin', 'ssa2json'), '-dir', REPO, '-o', out]
    for v, r in sorted(ov.items()): cmd += ['-overlay', '%s=%s' % (v, r)]
    cmd += sorted(pkgs)
    t = time.time()
    r = subprocess.run(cmd, env=GOENV, cwd=REPO, capture_output=True, text=True)
    if r.returncode != 0:
        raise RuntimeError('front end failed:\n' + r.stdout[-4000:] + r.stderr[-4000:])
    return time.time() - t

def make_engine(ir, h, known):
    from . import core
    from .models import rt, std, crypto
    E = core.Engine(ir)
    rt.install(E); std.install(E); crypto.install(E)
    if 'sql' in h.models:
        from .models import sql; sql.install(E, os.path.join(REPO, 'mint/storage/sqlite/migrations'))
    if 'mint' in h.models:
        from .models import mintenv; mintenv.install(E)
    if 'json' in h.models:
        from .models import jsonm; jsonm.install(E)
    if 'threads' in h.models:
        from .models import threads; threads.install(E)
    if 'http' in h.models:
        from .models import httpm; httpm.install(E)
    if 'wallet' in h.models:
        from .models import walletenv; walletenv.install(E)
    from .models import summaries
    summaries.install(E, h.summaries)
    E.panic_mode = h.panic_mode
    E.crypto_mode = h.crypto_mode
    E.unwind = h.unwind
    E.go_mode = h.go_mode
    if h.sched:
        for f in E.funcs.values():
            for b in f['blocks']:
                for ins in b['instrs']:
                    c = ins.get('call')
                    if c and 'invoke' in c and ins['op'] == 'Call' and c['iface'] in (
                            MOD + '/mint/storage.MintDB', MOD + '/mint/lightning.Client',
                            MOD + '/wallet/storage.WalletDB'):
                        ins['sched'] = c['iface'].rsplit('.', 1)[-1] + '.' + c['invoke']
                    # the wallet's two HTTP primitives: a crash can strike before any request goes out
                    elif c and ins['op'] == 'Call' and isinstance(c.get('fn'), dict) and c['fn'].get('k') == 'func' and c['fn'].get('n') in (
                            MOD + '/wallet/client.get', MOD + '/wallet/client.httpPost'):
                        ins['sched'] = 'HTTP.' + ('get' if c['fn']['n'].endswith('.get') else 'post')
    E.known = known
    return E

# ----------------------------------------------------------------------------- known findings
def load_known(prop):
    p = os.path.join(VERIF, 'known_findings.json')
    if not os.path.exists(p) or os.environ.get('VERIF_NO_KNOWN'): return []
    out = []
    for k in json.load(open(p)).get('findings', []):
        if k.get('property') != prop or k.get('status') == 'fixed': continue
        out.append(k)
    return out

def compile_known(klist, hname):
    res = []
    for k in klist:
        if k.get('harness') is not None and not re.fullmatch(k['harness'], hname): continue
        pat = k['assert']
        pred = k.get('predicate', 'True')
        def match(label, pat=pat): return re.fullmatch(pat, label) is not None
        def formula(E, pred=pred):
            env = {'re': re, 'And': z3.And, 'Or': z3.Or, 'Not': z3.Not, 'True': True, 'False': False, 'ULT': z3.ULT, 'ULE': z3.ULE, 'UGT': z3.UGT, 'UGE': z3.UGE}
            names = {}
            for lab, (kind, term) in E.P.nondets.items():
                names[re.sub(r'[^A-Za-z0-9_]', '_', lab)] = term
            names['_crash'] = E.P.g.get('crash_at_name', '')
            names['_trace'] = ' '.join(E.P.trace)
            try:
                return eval(pred, env, names)
            except NameError:
                return False
        res.append(dict(id=k['id'], match=match, formula=formula, description=k['description']))
    return res

# ----------------------------------------------------------------------------- exploration
_W = {}
def _worker_init(irpath, h, known_raw, seed):
    z3.set_param('smt.random_seed', seed % 1000)
    ir = json.load(open(irpath))
    _W['E'] = make_engine(ir, h, compile_known(known_raw, h.name)); _W['h'] = h

def _fresh_stats():
    return dict(paths=0, queries=0, solver_s=0.0, instrs=0, violations=[], known_hits={}, reached={}, asserts={},
                funcs=set(), unsupported=[], unknown=0, samples=[])

def _worker_task(args):
    prefixes, budget, deadline = args
    try:
        E = _W['E']; h = _W['h']
        E.stats = _fresh_stats()
        E.work = list(reversed(prefixes))
        n = 0
        while E.work and n < budget and time.time() < deadline:
            E.run_path(h.entry, E.work.pop()); n += 1
        st = E.stats
        st['funcs'] = sorted(st['funcs']); st['leftover_work'] = list(E.work); st['leftover'] = 0; st.pop('sampled_labels', None)
        from . import solver as _sv
        st['xsolver'] = dict(_sv.XSTATS); _sv.XSTATS.update(sampled=0, agree=0, other_unknown=0, disagree=[])
        return st
    except Exception as e:
        return dict(error=traceback.format_exc(), leftover_work=[])

def merge(stats):
    out = dict(paths=0, queries=0, solver_s=0.0, instrs=0, violations=[], known_hits={}, reached={}, asserts={}, funcs=set(),
               unsupported=[], unknown=0, samples=[], completed=0, leftover=0, timeout=False, errors=[],
               xsolver=dict(sampled=0, agree=0, other_unknown=0, disagree=[]))
    for s in stats:
        if 'error' in s: out['errors'].append(s['error']); continue
        x = s.get('xsolver')
        if x:
            for k in ('sampled', 'agree', 'other_unknown'): out['xsolver'][k] += x.get(k, 0)
            out['xsolver']['disagree'] += x.get('disagree', [])
        for k in ('paths', 'queries', 'solver_s', 'instrs', 'unknown', 'leftover'): out[k] += s.get(k, 0)
        out['completed'] += s.get('completed', 0)
        out['violations'] += s['violations']; out['unsupported'] += s['unsupported']
        out['funcs'] |= set(s['funcs']); out['timeout'] |= bool(s.get('timeout'))
        for k, v in s['reached'].items(): out['reached'][k] = out['reached'].get(k, 0) + v
        for k, v in s['asserts'].items():
            a = out['asserts'].setdefault(k, dict(checked=0, failed=0, known=0))
            for kk in a: a[kk] += v.get(kk, 0)
        for k, v in s['known_hits'].items():
            a = out['known_hits'].setdefault(k, dict(count=0, script=None))
            a['count'] += v['count']; a['script'] = a['script'] or v['script']
        if len(out['samples']) < 4: out['samples'] += s['samples'][:2]
    return out

def explore_parallel(irpath, h, known_raw, nproc, seed, deadline):
    """dynamic work sharing: tasks = (prefixes, path budget); unfinished prefixes come back and are re-queued"""
    queue = [[]]
    results = []
    pending = []
    budget = 8
    t_start = time.time(); first_violation_at = None
    # once a harness has produced counterexamples there is no point in exhausting a (possibly much larger) changed path space:
    # exploration stops VERIF_STOP_AFTER_VIOLATION seconds after the first one; what was found is replayed and reported, the
    # unexplored rest is counted as left over (the result can then only be VIOLATION or INCONCLUSIVE, never "holds")
    grace = float(os.environ.get('VERIF_STOP_AFTER_VIOLATION', '180'))
    with multiprocessing.Pool(nproc, initializer=_worker_init, initargs=(irpath, h, known_raw, seed)) as pool:
        while queue or pending:
            if time.time() > deadline: break
            if first_violation_at is not None and time.time() - first_violation_at > grace: break
            # hand out work: split the queue into tasks for idle workers
            while queue and len(pending) < nproc * 2:
                k = max(1, min(len(queue) // (nproc * 2) or 1, 16))
                task, queue = queue[:k], queue[k:]
                pending.append(pool.apply_async(_worker_task, ((task, budget, deadline),)))
            done = [p for p in pending if p.ready()]
            if not done:
                time.sleep(0.02); continue
            for p in done:
                pending.remove(p)
                st = p.get()
                queue += st.pop('leftover_work', [])
                results.append(st)
                if first_violation_at is None and st.get('violations'): first_violation_at = time.time()
            npaths = sum(r.get('paths', 0) for r in results)
            budget = 8 if npaths < 200 else 40
        timed_out = bool(queue or pending)
        if timed_out: pool.terminate()
    out = merge(results)
    out['timeout'] = timed_out; out['leftover'] = len(queue)
    return out

# ----------------------------------------------------------------------------- replay
REPLAY_TEST = '''package %(pkgname)s

import (
	"testing"

	verifrt "github.com/elnosh/gonuts/verifrt"
)

func TestVerifReplay_%(name)s(t *testing.T) {
	if verifrt.Run("%(name)s", %(name)s) {
		t.Fail()
	}
}
'''

def pkgname_of(h):
    mine = [x for x in h.files if os.path.dirname(x) == h.pkg] or h.files
    f = os.path.join(VERIF, 'harness', mine[0])
    for line in open(f):
        m = re.match(r'package\s+(\w+)', line)
        if m: return m.group(1)
    raise RuntimeError('no package clause in ' + f)

def replay(h, script, outdir, all_harnesses, timeout=300, salt=0):
    """run the harness natively with the script; returns (labels_failed, panicked, raw output)"""
    os.makedirs(outdir, exist_ok=True)
    sp = os.path.join(outdir, 'script.json')
    json.dump(dict(harness=h.name, package=h.pkg, values=script), open(sp, 'w'), indent=1)
    testfile = os.path.join(outdir, 'zz_verif_replay_test.go')
    open(testfile, 'w').write(REPLAY_TEST % dict(pkgname=pkgname_of(h), name=h.name))
    ov = overlays_for([x for x in all_harnesses if x.pkg == h.pkg or True], native=True)
    ov[os.path.join(REPO, h.pkg, 'zz_verif_replay_test.go')] = testfile
    ovp = os.path.join(outdir, 'overlay.json')
    json.dump({'Replace': ov}, open(ovp, 'w'), indent=1)
    cmd = ['go', 'test', '-vet=off', '-count=1', '-overlay', ovp, '-run', '^TestVerifReplay_%s$' % h.name, '-v', './' + h.pkg]
    open(os.path.join(outdir, 'replay.sh'), 'w').write(
        '#!/bin/sh\n# replays this counterexample against the real build\ncd %s && VERIF_SCRIPT=%s VERIF_RAW_SALT=%d GOFLAGS=-mod=mod GOPROXY=off %s\n' % (REPO, sp, salt, ' '.join(cmd)))
    env = dict(GOENV, VERIF_SCRIPT=sp, VERIF_RAW_SALT=str(salt))
    try:
        r = subprocess.run(cmd, env=env, cwd=REPO, capture_output=True, text=True, timeout=timeout)
        out = r.stdout + r.stderr
    except subprocess.TimeoutExpired as e:
        out = 'VERIF-REPLAY-TIMEOUT\n' + (e.stdout or '') if isinstance(e.stdout, str) else 'VERIF-REPLAY-TIMEOUT\n'
    open(os.path.join(outdir, 'replay.log'), 'w').write(out)
    failed = re.findall(r'^VERIF-ASSERT-FAILED: (.*)$', out, re.M)
    panicked = re.search(r'^VERIF-PANIC: (.*)$', out, re.M)
    return failed, (panicked.group(1) if panicked else None), out

def confirm(h, v, outdir, all_harnesses):
    """does the counterexample reproduce on the real build?"""
    if any(isinstance(x, dict) and 'unrealisable' in x for x in v['script'].values()):
        return False, 'model value cannot be realised: %s' % [x for x in v['script'].values() if isinstance(x, dict) and 'unrealisable' in x][:1]
    why = ''
    has_raw = '"raw"' in json.dumps(v['script'])
    for salt in range(6 if has_raw else 1):
        failed, panicked, out = replay(h, v['script'], outdir, all_harnesses, salt=salt)
        if 'VERIF-REPLAY-DONE' not in out and not panicked:
            return False, 'replay did not run: ' + out[-600:]
        if v['kind'] == 'panic':
            if panicked is not None: return True, 'panic reproduced: %s' % panicked
            why = 'no panic natively'
        elif v['label'] in failed: return True, 'assertion failed natively' + (' (filler salt %d)' % salt if salt else '')
        elif panicked and h.panic_mode == 'obligation': return True, 'panic natively: ' + panicked
        else: why = 'native run did not fail this assertion (failed: %s, panic: %s)' % (failed, panicked)
        if 'VERIF-ASSUME-FAILED' not in out and salt >= 2 and not h.salt_retries: break
    return False, why

# ----------------------------------------------------------------------------- property check
def func_hashes(ir, names):
    out = {}
    for n in sorted(names):
        f = ir['funcs'].get(n)
        if f is None: continue
        pos = ''
        for b in f['blocks']:
            for i in b['instrs']:
                if i.get('pos'): pos = i['pos']; break
            if pos: break
        body = json.dumps([[{k: v for k, v in i.items() if k != 'pos' and k != 'sched' and not k.startswith('_')} for i in b['instrs']] for b in f['blocks']], sort_keys=True, default=str)
        out[n] = dict(pos=pos.replace(REPO + '/', ''), ssa_sha1=hashlib.sha1(body.encode()).hexdigest()[:12])
    return out

def run_property(prop, harnesses, tier, level_text, assumptions, outside, nproc=None, seed=0, budget_s=None):
    """explore all harnesses of one property; prints VIOLATION / KNOWN-FINDING lines; returns exit code"""
    t0 = time.time()
    nproc = nproc or min(16, os.cpu_count() or 4)
    os.makedirs(CACHE, exist_ok=True)
    irpath = os.path.join(CACHE, 'ir_%s_%s_%d.json' % (prop, tier, os.getpid()))
    known_raw = load_known(prop)
    results = {}; exit_code = 0; lines = []
    inconclusive = []
    try:
        fe_s = frontend(harnesses, irpath)
    except RuntimeError as e:
        log(str(e))
        write_evidence(prop, tier, seed, dict(explanation='front end failed (harness does not type-check against the current tree)', evaluations=0,
                       distinct_nontrivial=0, error=str(e)[-2000:]), assumptions, time.time() - t0, 0)
        print('INCONCLUSIVE property=%s front end failed' % prop)
        return 2
    ir = json.load(open(irpath))
    confirmed = []; spurious = []; conformance = []
    for h in harnesses:
        deadline = time.time() + (budget_s or h.timeout_s)
        log('[%s] exploring %s (%s)' % (prop, h.name, h.bounds))
        st = explore_parallel(irpath, h, known_raw, nproc, seed, deadline)
        results[h.name] = st
        log('[%s] %s: paths=%d queries=%d solver=%.1fs violations=%d known=%s unsupported=%d reached=%s' % (
            prop, h.name, st['paths'], st['queries'], st['solver_s'], len(st['violations']), {k: v['count'] for k, v in st['known_hits'].items()},
            len(st['unsupported']), dict(st['reached'])))
        if st['errors']:
            inconclusive.append('%s: engine error: %s' % (h.name, st['errors'][0][-800:]))
        if st['unsupported']:
            msgs = sorted(set(u['msg'] for u in st['unsupported']))
            inconclusive.append('%s: %d paths left the encodable fragment: %s' % (h.name, len(st['unsupported']), msgs[:3]))
        if st['xsolver']['disagree']:
            inconclusive.append('%s: a second solver disagrees with z3 5.1.0 on %d sampled queries, e.g. %s' % (h.name, len(st['xsolver']['disagree']), st['xsolver']['disagree'][0]))
        if st['timeout'] or st['leftover']:
            inconclusive.append('%s: exploration did not finish inside its budget (%d prefixes left)' % (h.name, st['leftover']))
        for lab in h.must_reach:
            if not st['reached'].get(lab): inconclusive.append('%s: vacuity: label %r never reached' % (h.name, lab))
        # translator / model validation (Serval style): replay sample inputs of passing paths natively; the real build must
        # reach the same label without failing an assertion, panicking or drawing a value the engine never drew
        nconf = 0
        smps = sorted(st['samples'], key=lambda x: st['reached'].get(x['reached'], 0))
        for smp in smps[:(3 if tier == 'thorough' else 1)]:
            d = os.path.join(VERIF, 'replays', prop, '%s_sample_%d' % (h.name, nconf))
            if os.path.isdir(d): shutil.rmtree(d)
            failed, panicked, out = replay(h, smp['inputs'], d, harnesses)
            okc = 'VERIF-REPLAY-DONE' in out and not failed and not panicked and 'VERIF-MISSING-LABEL' not in out and 'VERIF-ASSUME-FAILED' not in out \
                and ('VERIF-REACH: ' + smp['reached']) in out
            conformance.append(dict(harness=h.name, reached=smp['reached'], agrees=okc))
            log('[%s] native sample %s reach=%r -> %s' % (prop, h.name, smp['reached'], 'agrees' if okc else 'DIFFERS'))
            if not okc:
                inconclusive.append('%s: a sample input of a passing path behaves differently on the real build (reach %r; failed=%s panic=%s): model or harness environment inaccurate, see %s' % (h.name, smp['reached'], failed, panicked, d))
            else: shutil.rmtree(d, ignore_errors=True)
            nconf += 1
        # replay: one representative per (label) first, then more if spurious
        bylabel = {}
        for v in st['violations']: bylabel.setdefault((v['kind'], v['label']), []).append(v)
        for (kind, label), vs in sorted(bylabel.items()):
            ok_any = False
            for n, v in enumerate(vs[:3]):
                d = os.path.join(VERIF, 'replays', prop, '%s_%s_%d' % (h.name, hashlib.sha1(label.encode()).hexdigest()[:8], n))
                if os.path.isdir(d): shutil.rmtree(d)
                ok, why = confirm(h, v, d, harnesses)
                log('[%s] replay %s %r -> %s (%s)' % (prop, h.name, label, ok, why))
                if ok:
                    confirmed.append(dict(harness=h.name, label=label, kind=kind, replay=d, why=why, n_paths=len(vs)))
                    ok_any = True; break
                spurious.append(dict(harness=h.name, label=label, why=why, replay=d))
            if not ok_any:
                inconclusive.append('%s: counterexample for %r did not reproduce on the real build (model too loose?)' % (h.name, label))
    for c in confirmed:
        lines.append('VIOLATION property=%s replay=%s' % (prop, c['replay']))
        exit_code = 1
    known_desc = {k['id']: k for k in known_raw}
    known_seen = {}
    for hn, st in results.items():
        for kid, hit in st['known_hits'].items(): known_seen[kid] = known_seen.get(kid, 0) + hit['count']
    for kid, cnt in sorted(known_seen.items()):
        lines.append('KNOWN-FINDING: property=%s %s [%s, %d paths]' % (prop, known_desc[kid]['description'], kid, cnt))
    if exit_code == 0 and inconclusive:
        exit_code = 2
    # ---- evidence
    tot = lambda k: sum(r[k] for r in results.values())
    allfuncs = set()
    for r in results.values(): allfuncs |= r['funcs']
    repo_funcs = {f for f in allfuncs if f.startswith(MOD) or f.startswith('(*' + MOD) or f.startswith('(' + MOD)}
    repo_funcs = {f for f in repo_funcs if 'verifrt' not in f and '.VHarness' not in f and '.vh' not in f}
    asserts = {}
    for hn, r in results.items():
        for k, v in r['asserts'].items(): asserts['%s: %s' % (hn, k)] = v
    obligations = sum(v['checked'] for v in asserts.values())
    failed = sum(v['failed'] for v in asserts.values())
    samples = []
    for hn, r in results.items():
        for s in r['samples'][:2]: samples.append(dict(harness=hn, **s))
    if not samples: samples = [dict(note='no path reached a vReach label')]
    cov = dict(
        explanation=level_text,
        evaluations=tot('paths'), distinct_nontrivial=sum(r['completed'] for r in results.values()),
        rule='one evaluation = one feasible symbolic path of a harness through the real SSA (decision list distinct by construction); counted as '
             'non-trivial when the path ran to the end of the harness, i.e. reached and discharged its assertions',
        samples=samples[:6],
        obligations=obligations, discharged=obligations - failed - sum(v['known'] for v in asserts.values()),
        harnesses={hn: dict(bounds=next(h.bounds for h in harnesses if h.name == hn), paths=r['paths'], completed=r['completed'], solver_queries=r['queries'],
                            solver_s=round(r['solver_s'], 2), instructions=r['instrs'], reached=r['reached'],
                            unsupported=sorted(set(u['msg'] for u in r['unsupported']))[:5], timeout=r['timeout']) for hn, r in results.items()},
        assertions=asserts,
        functions_encoded=func_hashes(ir, repo_funcs),
        frontend_s=round(fe_s, 2), solver='z3 %s (python API), timeout %ds/query' % (z3.get_version_string(), 30),
        second_solvers=dict(solvers='z3 4.8.12 (/usr/bin/z3), cvc5 1.0.x', sampling='every %s-th decided query' % os.environ.get('VERIF_XSOLVER', '0'),
                            sampled_queries=sum(r['xsolver']['sampled'] for r in results.values()), answers_agreeing=sum(r['xsolver']['agree'] for r in results.values()),
                            answers_unknown_or_error=sum(r['xsolver']['other_unknown'] for r in results.values()),
                            disagreements=sum([r['xsolver']['disagree'] for r in results.values()], [])[:5]),
        native_conformance_samples=conformance, outside_claim=outside, known_findings_printed=sorted(known_seen), confirmed_violations=confirmed, spurious_models=spurious[:10],
        inconclusive=inconclusive, exhaustive=False)
    write_evidence(prop, tier, seed, cov, assumptions + sum([h.assumptions for h in harnesses], []), time.time() - t0, len(confirmed))
    try: os.remove(irpath)
    except OSError: pass
    for l in lines: print(l)
    if exit_code == 2:
        for m in inconclusive: print('INCONCLUSIVE property=%s %s' % (prop, m))
    print('%s: %s tier=%s paths=%d obligations=%d wall=%.1fs' % (prop, {0: 'HOLDS within bounds', 1: 'VIOLATED', 2: 'INCONCLUSIVE'}[exit_code], tier,
                                                               tot('paths'), obligations, time.time() - t0))
    return exit_code

def write_evidence(prop, tier, seed, cov, assumptions, wall, violations):
    ev = dict(property_id=prop, tier=tier, seed=seed, level='other', coverage=cov, assumptions=sorted(set(assumptions)), wall_s=round(wall, 2), violations=violations)
    # development runs (a single harness, or another tree than /repo) never touch the committed evidence
    evdir = os.path.join(VERIF, 'evidence') if (REPO == '/repo' and not os.environ.get('VERIF_DEV')) else os.path.join('/tmp', 'verif_dev_evidence')
    os.makedirs(evdir, exist_ok=True)
    p = os.path.join(evdir, prop + '.json')
    try:
        import jsonschema
        jsonschema.validate(ev, json.load(open('/root/.vp/EVIDENCE.schema.json')))
    except ImportError: pass
    except Exception as e:
        log('evidence does not validate: %s' % str(e)[:500])
    json.dump(ev, open(p, 'w'), indent=1, default=str)
