# Algebraic model of secp256k1 / btcec / schnorr / hdkeychain / sha256 (DESIGN.md 4.2).
# Points are represented by their discrete logarithm, scalars by themselves, both as mathematical
# integers (ring identities over Z hold modulo the group order).  Signatures are a term algebra.
import itertools
import z3
from ..sym import *
from ..core import *
from .std import mkerr, slist

SECP = 'github.com/decred/dcrd/dcrec/secp256k1/v4.'
SCHNORR = 'github.com/btcsuite/btcd/btcec/v2/schnorr.'
HD = 'github.com/btcsuite/btcd/btcutil/hdkeychain.'

def mkpk(t): return Ptr(Box(Opaque('pk', t)))
def mkpriv(t): return Ptr(Box(StructV([Opaque('sc', t)])))
def pkval(e, p):
    if p is None: raise GoPanic('nil pointer dereference (public key)')
    v = e.peek(p) if isinstance(p, Ptr) else p
    return v.val
def privval(e, p):
    if p is None: raise GoPanic('nil pointer dereference (private key)')
    v = e.peek(p) if isinstance(p, Ptr) else p
    return v.f[0].val
def scval(e, p):
    return e.peek(p).val

def install(E):
    I = E.intr
    fresh = itertools.count()
    E.ext_zero[SECP + 'ModNScalar'] = lambda e: Opaque('sc', z3.IntVal(0))
    E.ext_zero[SECP + 'JacobianPoint'] = lambda e: Opaque('jac', z3.IntVal(0))
    E.ext_zero[SECP + 'PublicKey'] = lambda e: Opaque('pk', z3.IntVal(0))
    E.ext_zero[SECP + 'FieldVal'] = lambda e: Opaque('fv', None)
    E.opaque_eq['pk'] = lambda e, x, y: x.val == y.val
    E.opaque_eq['sc'] = lambda e, x, y: x.val == y.val

    invs = {}
    def inj(e, fname, term, arg):
        """injectivity of an uninterpreted function (stated assumption: no collisions), encoded with an inverse function:
        inv(f(x)) = x for every application that occurs - linear in the number of terms, injectivity follows by congruence"""
        key = (fname, term.sort().name(), arg.sort().name())
        f = invs.get(key)
        if f is None: f = invs[key] = z3.Function('inv_%s_%s' % (fname, len(invs)), term.sort(), arg.sort())
        e.ax(('inj', fname, term.get_id()), f(term) == arg)
        if z3.is_app(term) and z3.is_expr(arg):       # remembered for the syntactic disequality test (core.sdiff)
            for j in range(term.num_args()):
                if term.arg(j).eq(arg): e.inj_pos.setdefault(term.decl().name(), set()).add(j)
    E.inj = inj

    # group operations: ring arithmetic over Z ('alg', needed for the BDHKE/DLEQ identities of C10) or
    # uninterpreted operations with pairwise cancellation instances ('euf', much cheaper; enough wherever
    # only "same key, same point" reasoning is needed)
    pmul_f = z3.Function('pmul', IntS, IntS, IntS)
    padd_f = z3.Function('padd', IntS, IntS, IntS)
    paddl_f = z3.Function('padd_l', IntS, IntS)
    paddr_f = z3.Function('padd_r', IntS, IntS)
    pdivk_f = z3.Function('pdivk', IntS, IntS, IntS)
    pdivp_f = z3.Function('pdivp', IntS, IntS, IntS)
    def pmul(e, k, P):
        if getattr(e, 'crypto_mode', 'alg') == 'alg': return k * P
        k, P = z3.simplify(k), z3.simplify(P)
        t = pmul_f(k, P)
        # cancellation (equal products: equal scalars iff equal points) through two inverse functions - linear in the
        # number of products, the pairwise instances follow by congruence
        e.ax(('pmul', t.get_id()), t != 0, pdivk_f(t, P) == k, pdivp_f(t, k) == P)
        return t
    def inverse_terms(t1, t2):
        """syntactically inverse group elements: P and -P, or k*P and (-k)*P"""
        if is_app_of(t1, 'pneg') and t1.arg(0).eq(t2): return True
        if is_app_of(t2, 'pneg') and t2.arg(0).eq(t1): return True
        if is_app_of(t1, 'pmul') and is_app_of(t2, 'pmul') and t1.arg(1).eq(t2.arg(1)):
            k1, k2 = t1.arg(0), t2.arg(0)
            if is_app_of(k1, 'sneg') and k1.arg(0).eq(k2): return True
            if is_app_of(k2, 'sneg') and k2.arg(0).eq(k1): return True
        return False
    def padd(e, a, b):
        if getattr(e, 'crypto_mode', 'alg') == 'alg': return a + b
        a, b = z3.simplify(a), z3.simplify(b)
        # group cancellation, syntactically: (X + T) + (-T) = X  (re-blinding an unblinded signature with the same r)
        for s1, s2 in ((a, b), (b, a)):
            if is_app_of(s1, 'padd'):
                if inverse_terms(s1.arg(1), s2): return s1.arg(0)
                if inverse_terms(s1.arg(0), s2): return s1.arg(1)
        # commutativity by a canonical argument order; the structural hash is stable (AST ids are not: freed terms get new ids)
        # (function symbol first, so that sums of the same shape - Y + rG - always list their operands in the same order)
        na = a.decl().name() if z3.is_app(a) else ''; nb = b.decl().name() if z3.is_app(b) else ''
        same = a.hash() == b.hash()
        ka, kb = (na, a.hash(), a.sexpr() if same else ''), (nb, b.hash(), b.sexpr() if same else '')
        t = padd_f(a, b) if ka <= kb else padd_f(b, a)
        if getattr(e, 'padd_inj', False):
            e.ax(('paddinj', t.get_id()), paddl_f(t) == t.arg(0), paddr_f(t) == t.arg(1))
        return t
    pneg_f = z3.Function('pneg', IntS, IntS)
    def pneg(e, P):
        if getattr(e, 'crypto_mode', 'alg') == 'alg': return -P
        P = z3.simplify(P)
        if is_app_of(P, 'pneg'): return P.arg(0)
        t = pneg_f(P)
        e.ax(('pneg', t.get_id()), pneg_f(t) == P, z3.Implies(P != 0, z3.And(t != P, t != 0)))
        return t
    def pubof(e, k):
        if getattr(e, 'crypto_mode', 'alg') == 'alg': return k
        return pmul(e, k, z3.IntVal(1))
    def sneg(e, x):
        if getattr(e, 'crypto_mode', 'alg') == 'alg': return -x
        return z3.Function('sneg', IntS, IntS)(x)
    def smul(e, x, y):
        if getattr(e, 'crypto_mode', 'alg') == 'alg': return x * y
        return z3.Function('smul', IntS, IntS, IntS)(x, y)
    def sadd(e, x, y):
        if getattr(e, 'crypto_mode', 'alg') == 'alg': return x + y
        return z3.Function('sadd', IntS, IntS, IntS)(x, y)
    E.pubof = pubof

    # truncated hashes used as identifiers (keyset ids: first 14 hex characters of a sha256): assumed collision free
    def ssub_hook(e, t, base, lo, hi):
        if lo == 0 and hi is not None and hi >= 14 and is_app_of(base, 'hexenc') and is_app_of(base.arg(0), 'sha256'):
            inj(e, 'idprefix%d' % hi, t, base.arg(0).arg(0))
    E.ssub_hook = ssub_hook

    # ---- sha256
    def sum256(e, a):
        src = e.tobytes(a[0])
        s = e.sha256(src)
        if s.c is not None:
            inj(e, 'sha256', e.lit(s.c), e.lit(src.c))      # concrete digests take part in the collision-freedom instances
            return ArrayV([ord(ch) for ch in s.c])
        inj(e, 'sha256', s.t, s.t.arg(0))
        return ArrayV([sbyte(s.t, z3.BitVecVal(k, 64)) for k in range(32)])
    I['crypto/sha256.Sum256'] = sum256
    I['crypto/sha256.New'] = lambda e, a: IfaceV('verif.sha256', Ptr(Box(Opaque('hasher', StrV(c='')))))
    def h_write(e, a):
        p = a[0].v; e.store(p, Opaque('hasher', e.sconcat(e.peek(p).val, e.tobytes(a[1])))); return (e.builtin('len', [a[1]], None), None)
    I['method:verif.sha256.Write'] = h_write
    def h_sum(e, a):
        p = a[0].v
        d = e.sha256(e.peek(p).val)
        if d.c is None: inj(e, 'sha256', d.t, d.t.arg(0))
        else: inj(e, 'sha256', e.lit(d.c), e.lit(e.peek(p).val.c))
        return BytesV(e.sconcat(e.tobytes(a[1]), d))
    I['method:verif.sha256.Sum'] = h_sum

    # ---- points and scalars
    def serialize_pt(e, P, f=serpt, n=33):
        t = f(P)
        e.ax(('ser', t.get_id()), slen(t) == n, parsept(t) == P, validpt(t))
        inj(e, f.name(), t, P)
        return BytesV(StrV(t=t))
    I['(%sPublicKey).SerializeCompressed' % SECP] = lambda e, a: serialize_pt(e, a[0].val)
    I['(%sPublicKey).SerializeUncompressed' % SECP] = lambda e, a: serialize_pt(e, a[0].val, serptU, 65)
    def parse_pubkey(e, a):
        s = e.tobytes(a[0])
        if s.c is not None:
            raise Unsupported('ParsePubKey of concrete bytes')
        t = s.t
        if is_app_of(t, 'serpt') or is_app_of(t, 'serptU'): return (mkpk(t.arg(0)), None)
        if is_app_of(t, 'sconcat') and e.tostr(t.arg(0)).c == '\x02':      # hash-to-curve candidate 02 || x
            x = t.arg(1)
            if e.branch(validx(x)): return (mkpk(liftx(x)), None)
            return (None, mkerr('invalid public key: x coordinate is not on the secp256k1 curve'))
        E.note_dec(e, t, 'pt', parsept(t), validpt(t))
        if e.branch(validpt(t)):
            e.ax(('vpt', t.get_id()), z3.Or(slen(t) == 33, slen(t) == 65), parsept(t) != 0)
            return (mkpk(parsept(t)), None)
        return (None, mkerr('malformed public key'))
    I[SECP + 'ParsePubKey'] = parse_pubkey
    I['github.com/btcsuite/btcd/btcec/v2.ParsePubKey'] = parse_pubkey
    I['(*%sPublicKey).IsOnCurve' % SECP] = lambda e, a: True
    I['(*%sPublicKey).IsEqual' % SECP] = lambda e, a: pkval(e, a[0]) == pkval(e, a[1])
    def as_jac(e, a): e.store(a[1], Opaque('jac', pkval(e, a[0]))); return None
    I['(*%sPublicKey).AsJacobian' % SECP] = as_jac
    I['(*%sPrivateKey).PubKey' % SECP] = lambda e, a: mkpk(pubof(e, privval(e, a[0])))
    def add_nc(e, a): e.store(a[2], Opaque('jac', padd(e, scval(e, a[0]), scval(e, a[1])))); return None
    I[SECP + 'AddNonConst'] = add_nc
    def mul_nc(e, a): e.store(a[2], Opaque('jac', pmul(e, scval(e, a[0]), scval(e, a[1])))); return None
    I[SECP + 'ScalarMultNonConst'] = mul_nc
    I['(*%sJacobianPoint).ToAffine' % SECP] = lambda e, a: None
    def new_pub(e, a):
        xp = a[0]
        parent = Ptr(xp.box, xp.path[:-1])
        return mkpk(e.peek(parent).val)
    I[SECP + 'NewPublicKey'] = new_pub
    def negate_val(e, a): e.store(a[0], Opaque('sc', sneg(e, scval(e, a[1])))); return a[0]
    I['(*%sModNScalar).NegateVal' % SECP] = negate_val
    # Negate negates the receiver in place and returns it
    def negate_inplace(e, a): e.store(a[0], Opaque('sc', sneg(e, scval(e, a[0])))); return a[0]
    I['(*%sModNScalar).Negate' % SECP] = negate_inplace
    def sc_mul(e, a): e.store(a[0], Opaque('sc', smul(e, scval(e, a[0]), scval(e, a[1])))); return a[0]
    I['(*%sModNScalar).Mul' % SECP] = sc_mul
    def sc_add(e, a): e.store(a[0], Opaque('sc', sadd(e, scval(e, a[0]), scval(e, a[1])))); return a[0]
    I['(*%sModNScalar).Add' % SECP] = sc_add
    I[SECP + 'NewPrivateKey'] = lambda e, a: mkpriv(scval(e, a[0]))
    def gen_priv(e, a):
        k = e.P.g['noncecnt'] = e.P.g.get('noncecnt', 0) + 1
        t = z3.Int('nonce%d' % k)
        e.assume(t != 0)
        return (mkpriv(t), None)
    I[SECP + 'GeneratePrivateKey'] = gen_priv
    def priv_from_bytes(e, a):
        s = e.tobytes(a[0])
        t = e.sterm(s)
        if is_app_of(t, 'serk'): return mkpriv(t.arg(0))
        k = b2s(t)
        # stated assumption: a 32-byte input is below the group order (false with probability ~2^-128 for hashes)
        e.ax(('b2s', k.get_id()), z3.Implies(slen(t) == 32, serk(k) == t))
        return mkpriv(k)
    I[SECP + 'PrivKeyFromBytes'] = priv_from_bytes
    I['github.com/btcsuite/btcd/btcec/v2.PrivKeyFromBytes'] = lambda e, a: (lambda p: (p, mkpk(pubof(e, privval(e, p)))))(priv_from_bytes(e, a))
    def priv_serialize(e, a):
        k = a[0].f[0].val
        t = serk(k)
        e.ax(('serk', t.get_id()), slen(t) == 32, b2s(t) == k)
        inj(e, 'serk', t, k)
        return BytesV(StrV(t=t))
    I['(%sPrivateKey).Serialize' % SECP] = priv_serialize

    # hash-to-curve summarised (every harness except C11): Y = h2c(msg), never the identity, collision free
    def h2c_summary(e, a):
        s = e.tobytes(a[0]); t = e.sterm(s)
        P = h2c(t)
        e.ax(('h2c', P.get_id()), P != 0)
        inj(e, 'h2c', P, t)
        return (mkpk(P), None)
    E.h2c_summary = h2c_summary

    # ---- Schnorr signatures (term algebra: a signature verifies iff it was made by that key over that hash)
    E.ext_zero[SCHNORR + 'Signature'] = lambda e: Opaque('sig', None)
    def schnorr_sign(e, a, aux=0):
        k = privval(e, a[0]); h = e.sterm(e.tobytes(a[1]))
        if isinstance(aux, int): aux = z3.IntVal(aux)
        t = schnorr_sig(k, h, aux)
        e.ax(('sig', t.get_id()), slen(t) == 64, validsig(t))
        lst = e.P.g.setdefault('sigs', [])
        for (t2, k2, h2, x2) in lst:        # distinct (key, hash, nonce) => distinct signature bytes
            e.P.solver.add(z3.Implies(t2 == t, z3.And(k2 == k, h2 == h, x2 == aux)))
        lst.append((t, k, h, aux))
        return (Ptr(Box(Opaque('sig', t))), None)
    I[SCHNORR + 'Sign'] = schnorr_sign
    E.schnorr_sign = schnorr_sign
    I['(%sSignature).Serialize' % SCHNORR] = lambda e, a: BytesV(StrV(t=a[0].val))
    I['(*%sSignature).Serialize' % SCHNORR] = lambda e, a: BytesV(StrV(t=e.peek(a[0]).val))
    def parse_sig(e, a):
        s = e.tobytes(a[0])
        if s.c is not None:
            if len(s.c) != 64: return (None, mkerr('malformed signature: wrong size'))
            t = e.lit(s.c)
        else: t = s.t
        if is_app_of(t, 'schnorr_sig'): return (Ptr(Box(Opaque('sig', t))), None)
        E.note_dec(e, t, 'sig', t, validsig(t))
        if e.branch(validsig(t)):
            e.ax(('vsig', t.get_id()), slen(t) == 64)
            return (Ptr(Box(Opaque('sig', t))), None)
        return (None, mkerr('malformed signature'))
    I[SCHNORR + 'ParseSignature'] = parse_sig
    def sig_verify(e, a):
        sig = e.peek(a[0]).val; h = e.sterm(e.tobytes(a[1])); P = pkval(e, a[2])
        if is_app_of(sig, 'schnorr_sig'):
            return z3.And(sig.arg(1) == h, pubof(e, sig.arg(0)) == P)
        # a signature string that did not come from the signing oracle never verifies (unforgeability, stated)
        return False
    I['(*%sSignature).Verify' % SCHNORR] = sig_verify

    # ---- BIP-32: uninterpreted deterministic derivation
    def mkx(t): return Ptr(Box(Opaque('xkey', t)))
    def new_master(e, a):
        t = e.sterm(e.tobytes(a[0]))
        return (mkx(hd_master(t)), None)
    I[HD + 'NewMaster'] = new_master
    def derive(e, a):
        k = e.peek(a[0]).val
        idx = a[1]
        ix = z3.BitVecVal(idx, 32) if isinstance(idx, int) else idx
        t = hd_derive(k, ix)
        # stated assumption: BIP-32 derivation has no collisions (distinct parent or index => distinct child, distinct keys)
        inj(e, 'hd_parent', t, k); inj(e, 'hd_index', t, ix); inj(e, 'hd_privkey', hd_priv(t), t)
        return (mkx(t), None)
    I['(*%sExtendedKey).Derive' % HD] = derive
    I['(*%sExtendedKey).ECPrivKey' % HD] = lambda e, a: (mkpriv(hd_priv(e.peek(a[0]).val)), None)
    I['(*%sExtendedKey).ECPubKey' % HD] = lambda e, a: (mkpk(pubof(e, hd_priv(e.peek(a[0]).val))), None)
    def gen_seed(e, a):
        k = e.P.g['seedcnt'] = e.P.g.get('seedcnt', 0) + 1
        t = z3.Const('genseed%d' % k, Str)
        n = e.conc(a[0])
        e.assume(slen(t) == n)
        return (BytesV(StrV(t=t)), None)
    I[HD + 'GenerateSeed'] = gen_seed
    E.lazy_globals['github.com/btcsuite/btcd/chaincfg.MainNetParams'] = lambda e: Opaque('netparams', 'main')

    # ---- harness API: crypto objects
    RT = 'github.com/elnosh/gonuts/verifrt.'
    def vpriv(e, a):
        lab = e.label(a[0].c)
        t = z3.Int(lab)
        e.P.nondets[lab] = ('priv', t)
        e.assume(t > 0)
        return mkpriv(t)
    I[RT + 'Priv'] = vpriv
    I[RT + 'SamePriv'] = lambda e, a: privval(e, a[0]) == privval(e, a[1])
    I[RT + 'SamePub'] = lambda e, a: pkval(e, a[0]) == pkval(e, a[1])
    I[RT + 'NegPub'] = lambda e, a: mkpk(pneg(e, pkval(e, a[0])))
    # comparison of single affine coordinates (FieldVal.Equals on &point.X): two points share their x coordinate exactly
    # when they are equal or negatives of each other; comparisons of y coordinates alone are not modelled
    def fv_equals(e, a):
        def coord(p):
            if p is None or not p.path: raise Unsupported('FieldVal.Equals on a field value that is not a coordinate of a modelled point')
            o = e.peek(Ptr(p.box, p.path[:-1]))
            if not isinstance(o, Opaque) or o.kind != 'jac': raise Unsupported('FieldVal.Equals on a field value that is not a coordinate of a modelled point')
            return o.val, p.path[-1]
        (P, i), (Q, j) = coord(a[0]), coord(a[1])
        if i != 0 or j != 0: raise Unsupported('FieldVal.Equals on y / z coordinates')
        return z3.Or(P == Q, P == pneg(e, Q))
    I['(*%sFieldVal).Equals' % SECP] = fv_equals
    def vsign(e, a):
        x = a[2]
        aux = x if isinstance(x, int) else z3.If(x == 0, z3.IntVal(0), z3.If(x == 1, z3.IntVal(1), z3.BV2Int(x)))
        return schnorr_sign(e, [a[0], a[1]], aux=aux)[0]
    I[RT + 'SchnorrSign'] = vsign
    I[RT + 'HashToCurve'] = lambda e, a: h2c_summary(e, a)[0]
