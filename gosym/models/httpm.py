# net/http + gorilla/mux at the handler level (C20): the harness calls handler methods directly through vhDo, which the
# engine intercepts: request = method + URL + mux variables + body bytes, response = recorded status + body.
import z3
from ..sym import *
from ..core import *
from .std import mkerr, slist

M = 'github.com/elnosh/gonuts/'
REQ = 'net/http.Request'

def install(E):
    I = E.intr
    def fidx(e, t, name):
        d = e.under(t)[1]
        for i, f in enumerate(d['fields']):
            if f['name'] == name: return i
        raise Unsupported('no field %s in %s' % (name, t))
    def vhdo(e, a):
        handler, method, url, vars_, body = a
        req = e.zero(REQ)
        req.f[fidx(e, REQ, 'Method')] = method
        req.f[fidx(e, REQ, 'URL')] = Ptr(Box(Opaque('url', url)))
        req.f[fidx(e, REQ, 'Body')] = IfaceV('verif.body', Ptr(Box(Opaque('buf', e.tobytes(body)))))
        rp = Ptr(Box(req))
        e.P.g.setdefault('muxvars', {})[id(rp.box)] = vars_
        rw = Ptr(Box(Opaque('rw', dict(status=200, body=StrV(c=''), wrote=False))))
        e.call(handler, [IfaceV('verif.rw', rw), rp])
        st = e.peek(rw).val
        return (st['status'], BytesV(st['body']))
    def model_req(e, a):
        method, url, vars_, body = a
        req = e.zero(REQ)
        req.f[fidx(e, REQ, 'Method')] = method
        req.f[fidx(e, REQ, 'URL')] = Ptr(Box(Opaque('url', url)))
        req.f[fidx(e, REQ, 'Body')] = IfaceV('verif.body', Ptr(Box(Opaque('buf', e.tobytes(body)))))
        rp = Ptr(Box(req))
        e.P.g.setdefault('muxvars', {})[id(rp.box)] = vars_
        rw = Ptr(Box(Opaque('rw', dict(status=200, body=StrV(c=''), wrote=False))))
        return (IfaceV('verif.rw', rw), rp)
    I[M + 'mint.vhModelReq'] = model_req
    def model_resp(e, a):
        st = e.peek(a[0].v).val
        return (st['status'], BytesV(st['body']))
    I[M + 'mint.vhModelResp'] = model_resp
    def rw_write(e, a):
        st = e.peek(a[0].v).val
        st['body'] = e.sconcat(st['body'], e.tobytes(a[1])); st['wrote'] = True
        return (e.builtin('len', [a[1]], None), None)
    I['method:verif.rw.Write'] = rw_write
    def rw_header(e, a):
        st = e.peek(a[0].v).val
        if st['wrote']: return None       # superfluous WriteHeader is ignored by net/http
        st['status'] = a[1]; st['wrote'] = True
        return None
    I['method:verif.rw.WriteHeader'] = rw_header
    I['method:verif.rw.Header'] = lambda e, a: MapV()
    I['(net/http.Header).Get'] = lambda e, a: StrV(c='')
    I['(net/http.Header).Set'] = lambda e, a: None
    def mux_vars(e, a):
        v = e.P.g.get('muxvars', {}).get(id(a[0].box))
        return v if v is not None else MapV()
    I['github.com/gorilla/mux.Vars'] = mux_vars
    I['(*net/url.URL).String'] = lambda e, a: e.peek(a[0]).val
    I['io.ReadAll'] = lambda e, a: (BytesV(e.peek(a[0].v).val), None)
    I['io.NopCloser'] = lambda e, a: IfaceV('verif.body', (a[0].v if isinstance(a[0], IfaceV) else a[0]))
    I['bytes.NewReader'] = lambda e, a: Ptr(Box(Opaque('buf', e.tobytes(a[0]))))
    I['method:verif.body.Close'] = lambda e, a: None
    I['encoding/json.NewDecoder'] = lambda e, a: Ptr(Box(Opaque('jsondec', a[0])))
    def dec_decode(e, a):
        rd = e.peek(a[0]).val
        data = BytesV(e.peek(rd.v).val)
        if e.strlen(data.s) == 0: return e.load(Ptr(e.global_box('io.EOF')))
        return e.intr['encoding/json.Unmarshal'](e, [data, a[1]])
    I['(*encoding/json.Decoder).Decode'] = dec_decode
    E.lazy_globals['io.EOF'] = lambda e: mkerr('EOF')
