# Structural model of encoding/json and fxamacker/cbor (DESIGN.md 4.5).
# Marshal is a structural recursion over the dumped type layouts (field names / omitempty from the
# struct tags read at run time; custom MarshalJSON / UnmarshalJSON methods of the repo are executed
# as real code).  The produced string carries its tree as ghost state; Unmarshal of such a string
# inverts the recursion; Unmarshal of an arbitrary string is a havoc (error, or an arbitrary value of
# the static type) whose tree is attached to the input so the counterexample can be replayed.
import re, itertools
import z3
from ..sym import *
from ..core import *
from .std import mkerr, slist

HAVOC_LIST_MAX = 2

def tag_of(f, cbor=False):
    tag = f.get('tag') or ''
    m = None
    if cbor: m = re.search(r'cbor:"([^"]*)"', tag)
    if m is None: m = re.search(r'json:"([^"]*)"', tag)
    if not m: return f['name'], ''
    parts = m.group(1).split(',')
    return (parts[0] or f['name']), ','.join(parts[1:])

def install(E):
    I = E.intr
    fresh = itertools.count()

    def jt(e): return e.P.g.setdefault('jtree', {})
    def attach(e, s, tree, fmt='json'):
        if s.c is None:
            e.P.keep.append(s.t); jt(e)[s.t.get_id()] = (fmt, tree)
        else: jt(e)[('c', s.c)] = (fmt, tree)
    WS = ' \t\r\n'
    def peel_ws(e, s):
        """strip literal white space that was concatenated around a string (insignificant around a JSON value)"""
        while s.c is None and is_app_of(s.t, 'sconcat'):
            h, tl = e.tostr(s.t.arg(0)), e.tostr(s.t.arg(1))
            if tl.c is not None and tl.c.strip(WS) == '': s = h
            elif h.c is not None and h.c.strip(WS) == '': s = tl
            else: break
        return s
    E.peel_ws = peel_ws
    def tree_of(e, s):
        if s.c is not None: return jt(e).get(('c', s.c))
        r = jt(e).get(s.t.get_id())
        if r is None:
            p = peel_ws(e, s)
            if p is not s and p.c is None:
                r = jt(e).get(p.t.get_id())
                if r is not None and r[0] != 'json': r = None      # only JSON text tolerates surrounding white space
        return r
    E.json_attach = attach; E.json_tree_of = tree_of

    def has_method(e, t, name):
        return name in e.methods.get(t, {})

    # ------------------------------------------------------------------ encoder
    def enc(e, v, t, addr, cbor):
        d0 = e.types[t]
        if t == 'encoding/json.RawMessage':
            if v is None: return ('null',)
            s = e.tobytes(v); tr = tree_of(e, s)
            return tr[1] if tr else ('raw', s)
        if not cbor and d0['k'] == 'named':
            if has_method(e, t, 'MarshalJSON'):
                return custom(e, IfaceV(t, v), t)
            if addr and has_method(e, '*' + t, 'MarshalJSON'):
                return custom(e, IfaceV('*' + t, Ptr(Box(v))), '*' + t)
        ut, d = e.under(t); k = d['k']
        if k == 'basic':
            n = d['name']
            if 'bool' in n: return ('bool', v)
            if 'string' in n: return ('str', v)
            if 'float' in n: return ('num', v, 0, True)
            return ('num', v, BITS.get(n, 64), n in SIGNED)
        if k == 'ptr':
            if v is None: return ('null',)
            if not cbor and has_method(e, t, 'MarshalJSON'): return custom(e, IfaceV(t, v), t)
            return enc(e, e.load(v), d['elem'], True, cbor)
        if isinstance(v, Opaque): return ('obj', [])     # library structs with unexported fields only
        if k == 'struct':
            items = []
            for f, fv in zip(d['fields'] or [], v.f):
                name, opts = tag_of(f, cbor)
                if name == '-' or not f['exp']: continue
                if 'omitempty' in opts and is_empty(e, fv, f['type']): continue
                items.append((name, enc(e, fv, f['type'], addr, cbor)))
            return ('obj', items)
        if k == 'slice':
            if v is None: return ('null',)
            if e.bits(d['elem']) == 8:
                s = e.tobytes(v)
                return ('bytes', s)
            return ('arr', [enc(e, x, d['elem'], True, cbor) for x in v.elems()])
        if k == 'array':
            return ('arr', [enc(e, x, d['elem'], addr, cbor) for x in v.e])
        if k == 'map':
            if v is None: return ('null',)
            items = []
            for kk, vv in v.ents:
                items.append((mapkey(e, kk, d['key']), enc(e, vv, d['elem'], False, cbor)))
            return ('obj', items)
        if k == 'iface':
            if v is None: return ('null',)
            return enc(e, v.v, v.t, False, cbor)
        raise Unsupported('json encode of ' + t)
    def mapkey(e, k, kt):
        if isinstance(k, StrV): return k
        c = e.conc(k)
        if c is not None: return StrV(c=str(c))
        return StrV(t=utoa(k))
    def is_empty(e, v, t):
        if v is None: return True
        if isinstance(v, bool): return not v
        if isinstance(v, int): return v == 0
        if isinstance(v, float): return v == 0.0
        if isinstance(v, StrV):
            if v.c is not None: return v.c == ''
            return e.branch(slen(v.t) == 0)
        if isinstance(v, SliceV): return v.len == 0
        if isinstance(v, BytesV):
            n = e.strlen(v.s)
            return n == 0 if isinstance(n, int) else e.branch(n == 0)
        if isinstance(v, MapV): return len(v.ents) == 0
        if z3.is_bool(v): return e.branch(z3.Not(v))
        if z3.is_bv(v): return e.branch(v == 0)
        return False
    def custom(e, recv, t):
        r = e.invoke(recv, 'MarshalJSON', [], 'json.Marshaler')
        data, err = r
        if err is not None: raise Unsupported('MarshalJSON returned an error')
        s = e.tobytes(data); tr = tree_of(e, s)
        return tr[1] if tr else ('raw', s)

    def tkey(n):
        if isinstance(n, (tuple, list)): return tuple(tkey(x) for x in n)
        if isinstance(n, StrV): return ('s', n.c) if n.c is not None else ('st', n.t.get_id())
        if isinstance(n, BytesV): return ('b',) + tkey(n.s)
        if z3.is_expr(n): return ('z', n.get_id())
        if isinstance(n, (int, bool, float, str)) or n is None: return n
        return ('o', id(n))
    def marshal(e, a, cbor=False):
        x = a[0]
        k = e.P.g['jsoncnt'] = e.P.g.get('jsoncnt', 0) + 1
        tree = ('null',) if x is None else enc(e, x.v, x.t, False, cbor)
        # the encoder is a function: structurally identical trees give the identical byte string
        memo = e.P.g.setdefault('marshal_memo', {})
        mk = (cbor, tkey(tree))
        if mk in memo:
            e.P.trace.append('marshal#%d=memo' % k)
            return (BytesV(memo[mk][0]), None)
        s = e.newstr('%s_out%d' % ('cbor' if cbor else 'json', k))
        memo[mk] = (s, tree)
        e.assume(z3.UGE(slen(s.t), 1))
        attach(e, s, tree, 'cbor' if cbor else 'json')
        e.P.trace.append('marshal#%d' % k)
        return (BytesV(s), None)
    I['encoding/json.Marshal'] = marshal
    I['github.com/fxamacker/cbor/v2.Marshal'] = lambda e, a: marshal(e, a, True)

    # ------------------------------------------------------------------ decoder
    class DecErr(Exception): pass
    def dec(e, node, t, cur, cbor):
        """returns the decoded value of type t (cur = current value, kept on null / missing)"""
        d0 = e.types[t]
        if t == 'encoding/json.RawMessage':
            sub = e.newstr('json_raw%d' % next(fresh)); attach(e, sub, node)
            e.assume(z3.UGE(slen(sub.t), 1))
            return BytesV(sub)
        if not cbor and d0['k'] == 'named' and has_method(e, '*' + t, 'UnmarshalJSON'):
            p = Ptr(Box(copyv(cur)))
            sub = e.newstr('json_sub%d' % next(fresh)); attach(e, sub, node)
            err = e.invoke(IfaceV('*' + t, p), 'UnmarshalJSON', [BytesV(sub)], 'json.Unmarshaler')
            if err is not None: raise DecErr()
            return e.load(p)
        if not cbor and d0['k'] == 'named' and has_method(e, t, 'UnmarshalJSON') and e.kind(t) == 'map':
            if cur is None: cur = MapV()
            sub = e.newstr('json_sub%d' % next(fresh)); attach(e, sub, node)
            err = e.invoke(IfaceV(t, cur), 'UnmarshalJSON', [BytesV(sub)], 'json.Unmarshaler')
            if err is not None: raise DecErr()
            return cur
        ut, d = e.under(t); k = d['k']
        kind = node[0]
        if kind == 'null':
            return None if k in ('ptr', 'slice', 'map', 'iface') else cur
        if k == 'basic':
            n = d['name']
            if 'bool' in n:
                if kind != 'bool': raise DecErr()
                return node[1]
            if 'string' in n:
                if kind != 'str': raise DecErr()
                return node[1]
            if kind != 'num': raise DecErr()
            v, sb, ss = node[1], node[2], node[3]
            if 'float' in n: return v
            db = BITS.get(n, 64); ds = n in SIGNED
            return fit(e, v, sb, ss, db, ds)
        if k == 'ptr':
            inner = e.load(cur) if cur is not None else e.zero(d['elem'])
            return Ptr(Box(dec(e, node, d['elem'], inner, cbor)))
        if k == 'struct':
            if kind != 'obj': raise DecErr()
            out = copyv(cur)
            fields = d['fields'] or []
            for key, sub in node[1]:
                if isinstance(key, StrV):
                    if key.c is None: raise Unsupported('symbolic object key decoded into a struct')
                    key = key.c
                idx = None
                for i, f in enumerate(fields):
                    name, _ = tag_of(f, cbor)
                    if name != '-' and f['exp'] and name == key: idx = i; break
                if idx is None:
                    for i, f in enumerate(fields):
                        name, _ = tag_of(f, cbor)
                        if name != '-' and f['exp'] and name.lower() == key.lower(): idx = i; break
                if idx is None: continue
                out.f[idx] = dec(e, sub, fields[idx]['type'], out.f[idx], cbor)
            return out
        if k == 'slice':
            if e.bits(d['elem']) == 8:
                if kind == 'bytes': return BytesV(node[1])
                if kind == 'str' and not cbor:
                    raise Unsupported('base64 text decoded into []byte')
                raise DecErr()
            if kind != 'arr': raise DecErr()
            return mkslice([dec(e, x, d['elem'], e.zero(d['elem']), cbor) for x in node[1]]) if node[1] else SliceV(Box(ArrayV([])), 0, 0, 0)
        if k == 'map':
            if kind != 'obj': raise DecErr()
            m = cur if cur is not None else MapV()
            for key, sub in node[1]:
                kv = key if isinstance(key, StrV) else StrV(c=key)
                if e.kind(d['key']) == 'basic' and e.bits(d['key']):
                    if kv.c is not None:
                        if not kv.c.isdigit(): raise DecErr()
                        kv = int(kv.c) & ((1 << e.bits(d['key'])) - 1)
                    elif is_app_of(kv.t, 'utoa'): kv = kv.t.arg(0)
                    else: raise Unsupported('symbolic map key')
                e.map_update(m, kv, dec(e, sub, d['elem'], e.zero(d['elem']), cbor))
            return m
        if k == 'iface':
            raise Unsupported('json decode into interface')
        raise Unsupported('json decode into ' + t)
    def fit(e, v, sb, ss, db, ds):
        """number with source width/signedness into target width/signedness, error when out of range"""
        if isinstance(v, int):
            x = sgn(v, sb) if ss else v
            lo, hi = (-(1 << (db - 1)), (1 << (db - 1)) - 1) if ds else (0, (1 << db) - 1)
            if not lo <= x <= hi: raise DecErr()
            return x & ((1 << db) - 1)
        if sb == db and ss == ds: return v
        if db > sb and (ds or not ss): return z3.SignExt(db - sb, v) if ss else z3.ZeroExt(db - sb, v)
        # potential range error: decide on the path
        if ss and not ds:
            if e.branch(v < 0): raise DecErr()
            return v if db == sb else (z3.ZeroExt(db - sb, v) if db > sb else narrow(e, v, sb, db, False))
        if not ss and ds and db == sb:
            if e.branch(v < 0): raise DecErr()     # top bit set
            return v
        return narrow(e, v, sb, db, ds)
    def narrow(e, v, sb, db, ds):
        lim = (1 << (db - 1)) if ds else (1 << db)
        if e.branch(z3.UGE(v, lim)): raise DecErr()
        return z3.Extract(db - 1, 0, v)

    CUSTOM_STR = ('nut04.State', 'nut05.State', 'nut07.State')
    def havoc_tree(e, t, cbor, depth=0):
        d0 = e.types[t]
        if d0['k'] == 'named' and any(t.endswith(x) for x in CUSTOM_STR):
            return ('str', e.newstr('hv_s%d' % next(fresh)))
        ut, d = e.under(t); k = d['k']
        if k == 'basic':
            n = d['name']
            if 'bool' in n: return ('bool', z3.Bool('hv_b%d' % next(fresh)))
            if 'string' in n: return ('str', e.newstr('hv_s%d' % next(fresh)))
            if 'float' in n: return ('num', 0.0, 0, True)
            b = BITS.get(n, 64)
            return ('num', z3.BitVec('hv_n%d' % next(fresh), b), b, n in SIGNED)
        if k == 'ptr':
            if e.choose(2) == 0: return ('null',)
            return havoc_tree(e, d['elem'], cbor, depth + 1)
        if k == 'struct':
            items = []
            for f in d['fields'] or []:
                name, _ = tag_of(f, cbor)
                if name == '-' or not f['exp']: continue
                items.append((name, havoc_tree(e, f['type'], cbor, depth + 1)))
            return ('obj', items)
        if k == 'slice':
            if e.bits(d['elem']) == 8:
                s = e.newstr('hv_y%d' % next(fresh))
                return ('bytes', s) if cbor else ('str', s)
            n = e.choose(HAVOC_LIST_MAX + 1)
            return ('arr', [havoc_tree(e, d['elem'], cbor, depth + 1) for _ in range(n)])
        if k == 'map':
            n = e.choose(2)
            return ('obj', [(e.newstr('hv_k%d' % next(fresh)), havoc_tree(e, d['elem'], cbor, depth + 1)) for _ in range(n)])
        raise Unsupported('havoc of ' + t)

    def unmarshal(e, a, cbor=False):
        data, dst = a[0], a[1]
        if dst is None or dst.v is None: return mkerr('json: Unmarshal(nil)')
        s = e.tobytes(data)
        tr = tree_of(e, s)
        pt = dst.t
        tt = e.types[pt]['elem']
        if e.kind(tt) == 'iface':
            # Decode(&dst) with dst of type any holding a pointer: encoding/json decodes into what it points to
            inner = e.load(dst.v)
            if isinstance(inner, IfaceV) and e.types.get(inner.t, {}).get('k') == 'ptr':
                return unmarshal(e, [data, inner], cbor)
            raise Unsupported('json decode into interface value')
        if tr is None:
            mode = e.P.g.get('json_havoc', True)
            bad = e.P.g.setdefault('json_invalid', set())
            key = s.t.get_id() if s.c is None else ('c', s.c)
            if s.c is None: e.P.keep.append(s.t)
            if not mode or key in bad: return mkerr('invalid character looking for beginning of value')
            if s.c is not None or e.choose(2) == 0:
                bad.add(key)          # the same text is malformed for every later decoder call as well
                return mkerr('invalid character looking for beginning of value')
            tree = havoc_tree(e, tt, cbor)
            attach(e, s, tree, 'cbor' if cbor else 'json')
        else:
            if (tr[0] == 'cbor') != cbor: return mkerr('wrong encoding')
            tree = tr[1]
        try:
            v = dec(e, tree, tt, e.load(dst.v), cbor)
        except DecErr:
            return mkerr('json: cannot unmarshal value into Go value')
        e.store(dst.v, v)
        return None
    I['encoding/json.Unmarshal'] = unmarshal
    I['github.com/fxamacker/cbor/v2.Unmarshal'] = lambda e, a: unmarshal(e, a, True)

    # leaves of a tree (C08)
    def leaves(tree, path='$'):
        k = tree[0]
        if k == 'obj':
            for key, sub in tree[1]:
                kk = key.c if isinstance(key, StrV) and key.c is not None else (key if isinstance(key, str) else '<sym>')
                yield from leaves(sub, path + '.' + kk)
        elif k == 'arr':
            for i, sub in enumerate(tree[1]): yield from leaves(sub, '%s[%d]' % (path, i))
        else: yield (path, tree)
    E.json_leaves = leaves
