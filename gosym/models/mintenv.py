# Models used by the mint harness environment (harness/mint/zz_verif_env.go): BOLT11 decoding,
# grpc status codes.  The scripted Lightning backend itself is ordinary Go code in the harness.
import z3
from ..sym import *
from ..core import *
from .std import mkerr

M = 'github.com/elnosh/gonuts/'

def install(E):
    I = E.intr
    def invoice_sym(e, a):
        msat, h = a
        k = e.P.g['invcnt'] = e.P.g.get('invcnt', 0) + 1
        s = e.newstr('bolt11_%d' % k)
        e.assume(z3.UGT(slen(s.t), 20))
        prev = e.P.g.setdefault('invoices', {})
        for (t2, _, _) in prev.values(): e.assume(t2 != s.t)
        prev[s.t.get_id()] = (s.t, msat, h)
        return s
    I[M + 'mint.vhInvoiceSym'] = invoice_sym
    BOLT = 'github.com/nbd-wtf/ln-decodepay.Bolt11'
    def decodepay(e, a):
        s = a[0]
        inv = e.P.g.get('invoices', {}).get(s.t.get_id()) if s.c is None else None
        if inv is None:
            # a string that is not one of the harness' invoices does not decode (stated)
            return (e.zero(BOLT), mkerr('invalid invoice'))
        out = e.zero(BOLT)
        d = e.under(BOLT)[1]
        names = [f['name'] for f in d['fields']]
        out.f[names.index('MSatoshi')] = inv[1]
        out.f[names.index('PaymentHash')] = inv[2]
        out.f[names.index('Description')] = StrV(c='verif')
        return (out, None)
    I['github.com/nbd-wtf/ln-decodepay.Decodepay'] = decodepay
    # grpc status.Code(err): codes.Unknown (2) for every non-grpc error, OK (0) for nil
    I['google.golang.org/grpc/status.Code'] = lambda e, a: 0 if a[0] is None else 2
    I[M + 'mint/pubsub.NewPubSub'] = lambda e, a: None
    # MkdirTemp etc. are never reached (InitSQLite is native-only)
