# Summary of nut10.SerializeSecret / DeserializeSecret (hand-built JSON text via Sprintf; covered by the
# repository's own tests): a serialised secret is a fresh string that DeserializeSecret maps back to the
# same structure; any other string is not a NUT-10 secret.
import z3
from ..sym import *
from ..core import *
from .std import mkerr

M = 'github.com/elnosh/gonuts/cashu/nuts/nut10.'

def install(E):
    I = E.intr
    def ser(e, a):
        k = e.P.g['n10cnt'] = e.P.g.get('n10cnt', 0) + 1
        s = e.newstr('nut10secret%d' % k)
        e.assume(z3.UGT(slen(s.t), 30))
        prev = e.P.g.setdefault('nut10', {})
        for (t2, v2) in prev.values():
            e.assume(s.t != t2)          # distinct serialisations (they carry a random nonce / differ structurally)
        prev[s.t.get_id()] = (s.t, copyv(a[0]))
        e.P.g.setdefault('nut10_terms', []).append(s.t)
        return (s, None)
    I[M + 'SerializeSecret'] = ser
    def deser(e, a):
        s = a[0]
        zero = e.zero(M + 'WellKnownSecret')
        if s.c is not None: return (zero, mkerr('invalid character'))
        hit = e.P.g.get('nut10', {}).get(s.t.get_id())
        if hit is not None: return (copyv(hit[1]), None)
        # an arbitrary string: it may be equal to one of the serialised secrets, otherwise it is not NUT-10
        for (t2, v2) in e.P.g.get('nut10', {}).values():
            if e.branch(s.t == t2): return (copyv(v2), None)
        return (zero, mkerr('invalid character'))
    I[M + 'DeserializeSecret'] = deser
