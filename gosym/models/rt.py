# Models of the harness API (package verifrt, harness/rt/rt_sym.go).
import z3
from ..sym import *
from ..core import *

RT = 'github.com/elnosh/gonuts/verifrt.'

def cint(e, x):
    c = e.conc(x)
    if c is None: raise Unsupported('harness API argument must be concrete')
    return c
def slist(sl): return [] if sl is None else list(sl.elems())

def install(E):
    I = E.intr
    def reg(name, f): I[RT + name] = f

    reg('Native', lambda e, a: False)
    def nondet_bv(kind, bits):
        def f(e, a):
            lab = e.label(a[0].c)
            t = z3.BitVec(lab, bits)
            e.P.nondets[lab] = (kind, t)
            return t
        return f
    reg('U64', nondet_bv('u64', 64)); reg('I64', nondet_bv('i64', 64)); reg('U32', nondet_bv('u32', 32))
    def nbool(e, a):
        lab = e.label(a[0].c); t = z3.Bool(lab); e.P.nondets[lab] = ('bool', t); return t
    reg('Bool', nbool)
    def nint(e, a):
        lab = e.label(a[0].c)
        lo, hi = sgn(cint(e, a[1]), 64), sgn(cint(e, a[2]), 64)
        d = e.choose(hi - lo + 1)
        e.P.nondets[lab] = ('int', lo + d)
        return (lo + d) & ((1 << 64) - 1)
    reg('Int', nint)
    def nstr(e, a):
        lab = e.label(a[0].c)
        s = e.newstr(lab); e.P.nondets[lab] = ('str', s.t); return s
    reg('Str', nstr)
    def vassume(e, a):
        c = a[0]
        if c is True: return None
        if c is False: raise PathEnd()
        ok, _ = e.check(c)
        if not ok: raise PathEnd()
        e.assume(c); return None
    reg('Assume', vassume)
    def vassert(e, a):
        c, label = a[0], a[1].c
        if c is True:
            st = e.stats['asserts'].setdefault(label, dict(checked=0, failed=0, known=0)); st['checked'] += 1
            return None
        nc = True if c is False else z3.Not(c)
        violated = e.report(label, nc)
        # continue under the assumption that the assertion holds (if that is still possible)
        if c is False: raise PathEnd()
        if violated:
            ok, _ = e.check(c)
            if not ok: raise PathEnd()
        e.assume(c)
        return None
    reg('Assert', vassert)
    def vreach(e, a):
        r = e.stats['reached']; r[a[0].c] = r.get(a[0].c, 0) + 1
        e.P.g.setdefault('reached', []).append(a[0].c)
        return None
    reg('Reach', vreach)
    reg('And', lambda e, a: e.band(*slist(a[0])))
    reg('Or', lambda e, a: e.bor(*slist(a[0])))
    reg('Not', lambda e, a: e.bnot(a[0]))
    reg('Implies', lambda e, a: e.bor(e.bnot(a[0]), a[1]))
    reg('Trace', lambda e, a: e.P.trace.append(a[0].c))

    # ---- mathematical integers: two's complement bit-vectors whose width grows with every operation so that
    # no operation can wrap (sum: max+1 bits, product: sum of widths); comparisons sign-extend to a common width
    Zt = RT + 'Z'
    E.ext_zero[Zt] = lambda e: Opaque('Z', z3.BitVecVal(0, 2))
    def zi(x): return x.val
    def mk(t):
        if t.size() > 1024: raise Unsupported('oracle integer wider than 1024 bits')
        return Opaque('Z', t)
    def ext(t, w): return t if t.size() == w else z3.SignExt(w - t.size(), t)
    def common(a, b, extra=0):
        w = max(a.size(), b.size()) + extra
        return ext(a, w), ext(b, w)
    def zu(e, a):
        x = a[0]
        if isinstance(x, int): return mk(z3.BitVecVal(x, max(2, x.bit_length() + 1)))
        return mk(z3.ZeroExt(1, x))
    reg('ZU', zu)
    def zint(e, a):
        x = a[0]
        if isinstance(x, int):
            v = sgn(x, 64); return mk(z3.BitVecVal(v, max(2, v.bit_length() + 1)))
        return mk(x)
    reg('ZI', zint)
    def zadd(e, a): x, y = common(zi(a[0]), zi(a[1]), 1); return mk(z3.simplify(x + y))
    def zsub(e, a): x, y = common(zi(a[0]), zi(a[1]), 1); return mk(z3.simplify(x - y))
    def strip(t):
        """(narrow unsigned core, True) if t is a zero-extension of it / a non-negative constant, else (t, False)"""
        t = z3.simplify(t); u = False
        while z3.is_app(t):
            k = t.decl().kind()
            if k == z3.Z3_OP_ZERO_EXT: t = t.arg(0); u = True; continue
            if k == z3.Z3_OP_CONCAT and t.num_args() == 2 and z3.is_bv_value(t.arg(0)) and t.arg(0).as_long() == 0: t = t.arg(1); u = True; continue
            break
        if z3.is_bv_value(t) and not u:
            v = t.as_signed_long()
            if v >= 0: return z3.BitVecVal(v, max(1, v.bit_length())), True
        return t, u
    def zmul(e, a):
        x, y = zi(a[0]), zi(a[1])
        (xs, xu), (ys, yu) = strip(x), strip(y)
        if xu and yu:      # product of two non-negative narrow values: multiply narrow, then extend
            if z3.is_bv_value(xs): xs, ys = ys, xs
            if z3.is_bv_value(ys):      # canonical widening product with a constant (same term as core.intop builds for x / c)
                c = ys.as_long(); cb = max(1, c.bit_length())
                return mk(z3.ZeroExt(1, z3.ZeroExt(cb, xs) * z3.BitVecVal(c, xs.size() + cb)))
            w = xs.size() + ys.size()
            p = z3.ZeroExt(w - xs.size(), xs) * z3.ZeroExt(w - ys.size(), ys)
            return mk(z3.ZeroExt(1, p))
        w = x.size() + y.size()
        return mk(z3.simplify(ext(x, w) * ext(y, w)))
    reg('ZAdd', zadd); reg('ZSub', zsub); reg('ZMul', zmul)
    zcnt = [0]
    def zdiv(e, a, ceil):
        d = cint(e, a[1]); x = zi(a[0])
        if d <= 0: raise Unsupported('ZDiv by non-positive constant')
        zcnt[0] += 1
        q = z3.BitVec('zq%d' % zcnt[0], x.size())
        w = x.size() + d.bit_length() + 1
        Q, X = ext(q, w), ext(x, w)
        # definitional constraints of floor / ceiling division by a positive constant (no bvsdiv)
        if ceil: e.P.solver.add(Q * d >= X, (Q - 1) * d < X)
        else: e.P.solver.add(Q * d <= X, (Q + 1) * d > X)
        return mk(q)
    reg('ZCeilDiv', lambda e, a: zdiv(e, a, True))
    reg('ZDiv', lambda e, a: zdiv(e, a, False))
    def zcmp(op):
        def f(e, a):
            x, y = common(zi(a[0]), zi(a[1]))
            return op(x, y)
        return f
    reg('ZLe', zcmp(lambda x, y: x <= y)); reg('ZLt', zcmp(lambda x, y: x < y)); reg('ZEq', zcmp(lambda x, y: x == y))
    def zite(e, a):
        x, y = common(zi(a[1]), zi(a[2])); return mk(z3.If(e.tobool(a[0]), x, y))
    reg('ZIte', zite)
    E.opaque_eq['Z'] = lambda e, x, y: (lambda p: p[0] == p[1])(common(x.val, y.val))
    def pick(e, a, conv, wrap):
        idx = a[0]; opts = slist(a[1])
        c = e.conc(idx)
        if c is not None:
            if c >= len(opts): raise GoPanic('Pick index out of range')
            return opts[c]
        e.assume(z3.ULT(idx, len(opts)))
        r = conv(opts[-1])
        for k in range(len(opts) - 2, -1, -1): r = z3.If(idx == k, conv(opts[k]), r)
        return wrap(r)
    reg('PickStr', lambda e, a: pick(e, a, lambda s: e.sterm(s), lambda t: StrV(t=t)))
    reg('PickU64', lambda e, a: pick(e, a, lambda x: e.bv(x, 64), lambda t: t))
    reg('PickBytes', lambda e, a: pick(e, a, lambda b: e.sterm(e.tobytes(b)), lambda t: BytesV(StrV(t=t))))
    def pickpriv(e, a):
        from .crypto import privval, mkpriv
        return pick(e, a, lambda p: privval(e, p), lambda t: mkpriv(t))
    reg('PickPriv', pickpriv)
    ufs = {}
    def uf64(e, a):
        name = a[0].c
        f = ufs.get(name)
        if f is None: f = ufs[name] = z3.Function('uf_' + name, BV64, BV64)
        x = e.bv(a[1], 64)
        r = f(x)
        e.P.g.setdefault('uf', {}).setdefault(name, []).append((x, r))
        return r
    reg('UF64', uf64)
    reg('TempDir', lambda e, a: StrV(c='/model/tmp'))
    reg('BytesEq', lambda e, a: e.streq(e.tobytes(a[0]), e.tobytes(a[1])))
