# Relational model of database/sql + SQLite underneath the real mint/storage/sqlite/sqlite.go
# (DESIGN.md 4.3).  Schema, constraints and views are parsed from the migration files on every run.
import re, glob, itertools
import z3
from ..sym import *
from ..core import *
from .std import mkerr, slist

RT = 'github.com/elnosh/gonuts/verifrt.'

class Table:
    def __init__(self, name):
        self.name = name; self.cols = []; self.types = {}; self.notnull = set(); self.pk = []; self.unique = []; self.rows = []
class View:
    def __init__(self, name, key, col, table): self.name, self.key, self.col, self.table = name, key, col, table
class Row:
    __slots__ = ('present', 'c', 'sym')
    def __init__(self, present, c): self.present = present; self.c = c; self.sym = False

def parse_schema(mdir):
    tabs = {}; views = {}
    files = sorted(glob.glob(mdir + '/*.up.sql'))
    if not files: raise Unsupported('no migration files under ' + mdir)
    for fn in files:
        sql = open(fn).read()
        sql = re.sub(r'--[^\n]*', '', sql)
        for st in sql.split(';'):
            st = ' '.join(st.split())
            if not st: continue
            m = re.match(r'CREATE TABLE (?:IF NOT EXISTS )?(\w+) ?\((.*)\)$', st, re.I)
            if m:
                t = Table(m.group(1)); tabs[t.name] = t
                for cd in m.group(2).split(','):
                    p = cd.split()
                    if not p: continue
                    if p[0].upper() in ('PRIMARY', 'UNIQUE', 'FOREIGN', 'CHECK', 'CONSTRAINT'):
                        raise Unsupported('table-level constraint in migration: ' + cd)
                    t.cols.append(p[0]); t.types[p[0]] = p[1].upper() if len(p) > 1 else 'TEXT'
                    u = cd.upper()
                    if 'PRIMARY KEY' in u: t.pk = [p[0]]
                    elif 'UNIQUE' in u: t.unique.append([p[0]])
                    if 'NOT NULL' in u: t.notnull.add(p[0])
                continue
            m = re.match(r'ALTER TABLE (\w+) ADD COLUMN (\w+) (\w+)(.*)$', st, re.I)
            if m:
                t = tabs[m.group(1)]; t.cols.append(m.group(2)); t.types[m.group(2)] = m.group(3).upper()
                if 'NOT NULL' in m.group(4).upper(): t.notnull.add(m.group(2))
                continue
            m = re.match(r'CREATE VIEW (?:IF NOT EXISTS )?(\w+)', st, re.I)
            if m:
                name = m.group(1)
                g = re.match(r'CREATE VIEW (?:IF NOT EXISTS )?\w+ AS SELECT (\w+), COALESCE\(amount, 0\) AS \w+ FROM \( ?SELECT (\w+), SUM\((\w+)\) AS amount FROM (\w+) GROUP BY (\w+) ?\)$', st, re.I)
                if g and g.group(1) == g.group(2) == g.group(5): views[name] = View(name, g.group(1), g.group(3), g.group(4))
                else: views[name] = None      # a view the model does not understand: only an error if it is queried
                continue
            m = re.match(r'DROP VIEW (?:IF EXISTS )?(\w+)', st, re.I)
            if m: views.pop(m.group(1), None); continue
            if re.match(r'CREATE (UNIQUE )?INDEX', st, re.I):
                if re.match(r'CREATE UNIQUE', st, re.I): raise Unsupported('unique index in migration')
                continue
            raise Unsupported('migration statement outside the modelled subset: ' + st[:80])
    return tabs, views

class SqlDB:
    def __init__(self, tabs, views): self.tabs = tabs; self.views = views; self.snaps = []; self.open_tx = 0

def install(E, mdir):
    I = E.intr
    fresh = itertools.count()
    def norows(e):
        return IfaceV('*errors.errorString', Ptr(Box(StructV([StrV(c='sql: no rows in result set')]))))
    E.lazy_globals['database/sql.ErrNoRows'] = norows
    def err_norows(e): return e.load(Ptr(e.global_box('database/sql.ErrNoRows')))

    def mkdb(e, a):
        tabs, views = parse_schema(mdir)
        db = SqlDB(tabs, views)
        e.P.g['sqldb'] = db
        return Ptr(Box(Opaque('sqldb', db)))
    I[RT + 'SqlDB'] = mkdb
    def db_of(e, p): return e.peek(p).val
    def pres(r): return r.present if not isinstance(r.present, bool) else z3.BoolVal(r.present)
    def veq(e, x, y):
        if x is None or y is None: return z3.BoolVal(False)       # SQL NULL never compares equal
        r = e.valeq(x, y)
        return z3.BoolVal(r) if isinstance(r, bool) else r
    def eqcols(e, r1, r2, key): return z3.And([veq(e, r1.c[k], r2.c[k]) for k in key])

    def symrows(e, a):
        db = db_of(e, a[0]); t = db.tabs[a[1].c]; n = e.conc(a[2])
        new = []
        for i in range(len([r for r in t.rows if getattr(r, 'sym', False)]), n):
            pfx = 'row.%s.%d.' % (t.name, i)
            lab = e.label(pfx + 'present'); p = z3.Bool(lab); e.P.nondets[lab] = ('bool', p)
            cells = {}
            for c in t.cols:
                typ = t.types[c]
                isnull = False   # stated: pre-state rows were written by this version's writers, which never store NULL
                if typ == 'INTEGER':
                    lab = e.label(pfx + c); v = z3.BitVec(lab, 64); e.P.nondets[lab] = ('i64', v)
                    e.assume(v >= 0)        # representation invariant: database/sql only ever stored values < 2^63
                    if c == 'derivation_path_idx': e.assume(v < (1 << 32))
                elif typ == 'BOOLEAN':
                    lab = e.label(pfx + c); v = z3.Bool(lab); e.P.nondets[lab] = ('bool', v)
                else:
                    lab = e.label(pfx + c); s = e.newstr(lab); e.P.nondets[lab] = ('str', s.t); v = s
                cells[c] = None if isnull else v
            # derived column: y is the hash-to-curve point of the secret (what every writer stores)
            if 'y' in cells and 'secret' in cells:
                Y = h2c(e.sterm(cells['secret']))
                e.ax(('h2c', Y.get_id()), Y != 0); e.inj(e, 'h2c', Y, e.sterm(cells['secret']))
                sp = serpt(Y); e.ax(('ser', sp.get_id()), slen(sp) == 33, parsept(sp) == Y, validpt(sp)); e.inj(e, 'serpt', sp, Y)
                cells['y'] = e.hexenc(StrV(t=sp))
                e.P.g.setdefault('derived_strs', []).append(cells['y'].t)
            r = Row(p, cells); r.sym = True
            new.append(r)
        for r1, r2 in itertools.combinations(t.rows + new, 2):
            if r1 not in new and r2 not in new: continue
            for key in [t.pk] + t.unique:
                if key: e.assume(z3.Implies(z3.And(pres(r1), pres(r2)), z3.Not(eqcols(e, r1, r2, key))))
        t.rows = t.rows + new
        return None
    I[RT + 'SqlSymRows'] = symrows
    def sym_row(e, a):
        db = db_of(e, a[0]); t = db.tabs[a[1].c]; i = e.conc(a[2])
        rows = [r for r in t.rows if getattr(r, 'sym', False)]
        return t, rows[i]
    # accessors to the symbolic pre-state rows (so harnesses can state representation invariants)
    I[RT + 'SqlRowPresent'] = lambda e, a: sym_row(e, a)[1].present
    def rowstr(e, a):
        t, r = sym_row(e, a); v = r.c[a[3].c]
        return v if v is not None else StrV(c='')
    I[RT + 'SqlRowStr'] = rowstr
    def rowu64(e, a):
        t, r = sym_row(e, a); v = r.c[a[3].c]
        return v if v is not None else 0
    I[RT + 'SqlRowU64'] = rowu64
    I[RT + 'SqlRowBool'] = rowu64

    def argval(e, v):
        """database/sql driver argument conversion"""
        if isinstance(v, IfaceV):
            t = v.t; x = v.v
            ut, d = e.under(t)
            if d['k'] == 'basic' and d['name'] in ('uint64', 'uint', 'uintptr'):
                return x, ('u64', t)
            if d['k'] == 'basic' and d['name'] in ('uint32', 'uint16', 'uint8', 'byte'):
                return (x if isinstance(x, int) else z3.ZeroExt(64 - x.size(), x)), None
            if d['k'] == 'basic' and d['name'] in ('int', 'int64'): return x, None
            if d['k'] == 'basic' and d['name'] in ('int32', 'int16', 'int8'):
                return (sgn(x, BITS[d['name']]) & ((1 << 64) - 1) if isinstance(x, int) else z3.SignExt(64 - x.size(), x)), None
            if d['k'] in ('basic',): return x, None
            if d['k'] == 'slice': return e.tobytes(x), None
            if d['k'] == 'ptr' and x is None: return None, None
            raise Unsupported('sql argument of type ' + t)
        return v, None
    def args_of(e, sl):
        out = []
        for v in slist(sl):
            x, chk = argval(e, v)
            if chk:     # database/sql: uint64 values with the high bit set are rejected
                if isinstance(x, int):
                    if x >> 63: return None
                elif e.branch(z3.Extract(63, 63, x) == 1): return None
            out.append(x)
        return out
    HIGHBIT = 'sql: converting argument type: uint64 values with high bit set are not supported'

    def parse_insert(q):
        m = re.match(r'INSERT( OR IGNORE| OR REPLACE)? INTO (\w+) ?\(([^)]*)\) ?VALUES ?\(([^)]*)\)$', q, re.I)
        if not m: raise Unsupported('sql outside the modelled subset: ' + q)
        cols = [c.strip() for c in m.group(3).split(',')]
        vals = [c.strip() for c in m.group(4).split(',')]
        if any(v != '?' for v in vals) or len(vals) != len(cols): raise Unsupported('sql insert values: ' + q)
        return m.group(2), cols, (m.group(1) or '').strip().upper()
    def table(db, name, q):
        t = db.tabs.get(name)
        if t is None: raise Unsupported('sql: unknown table %s in %s' % (name, q))
        return t
    def do_insert(e, db, q, args):
        tn, cols, onconf = parse_insert(q)
        t = table(db, tn, q)
        if len(cols) != len(args): return mkerr('sql: expected %d arguments, got %d' % (len(cols), len(args)))
        for c in cols:
            if c not in t.types: return mkerr('table %s has no column named %s' % (tn, c))
        newc = {c: None for c in t.cols}
        for c, v in zip(cols, args): newc[c] = v
        for c in t.notnull:
            if newc[c] is None: return mkerr('NOT NULL constraint failed: %s.%s' % (tn, c))
        nr = Row(True, newc)
        def conflicts(r):
            return [z3.And(pres(r), eqcols(e, r, nr, key)) for key in [t.pk] + t.unique if key and all(newc[k] is not None for k in key)]
        if onconf == 'OR REPLACE':      # conflicting rows are deleted, then the row is inserted
            keep = []
            for r in t.rows:
                c = conflicts(r)
                if c and e.branch(z3.Or(c)): continue
                keep.append(r)
            t.rows = keep + [nr]
            return None
        confl = [c for r in t.rows for c in conflicts(r)]
        if confl and e.branch(z3.Or(confl)):
            if onconf == 'OR IGNORE': return None      # silently skipped
            return mkerr('UNIQUE constraint failed: ' + tn)
        t.rows = t.rows + [nr]
        return None
    def where_cond(e, t, q, args):
        """returns (per-row condition builder, number of args consumed by SET etc. is handled by callers)"""
        m = re.search(r' WHERE (\w+) IN ?\(([?, ]*)\)$', q, re.I)
        if m:
            col = m.group(1); n = m.group(2).count('?')
            if n != len(args): return None, mkerr('sql: expected %d arguments, got %d' % (n, len(args)))
            if col not in t.types: return None, mkerr('no such column: ' + col)
            return (lambda r: z3.Or([veq(e, r.c[col], a) for a in args]) if args else z3.BoolVal(False)), None
        m = re.search(r' WHERE (\w+) ?= ?\?$', q, re.I)
        if m:
            col = m.group(1)
            if len(args) != 1: return None, mkerr('sql: expected 1 arguments, got %d' % len(args))
            if col not in t.types: return None, mkerr('no such column: ' + col)
            return (lambda r: veq(e, r.c[col], args[0])), None
        m = re.search(r' WHERE (\w+) ?= ?(\w+)$', q, re.I)
        if m and m.group(1) == m.group(2):        # "WHERE id = id" (GetSeed): true for every non-NULL id
            col = m.group(1)
            return (lambda r: z3.BoolVal(r.c[col] is not None)), None
        if ' WHERE ' in q.upper(): raise Unsupported('sql where clause outside the modelled subset: ' + q)
        if args: return None, mkerr('sql: expected 0 arguments, got %d' % len(args))
        return (lambda r: z3.BoolVal(True)), None
    def select_rows(e, db, q, args):
        m = re.match(r'SELECT (.*?) FROM (\w+)( WHERE .*)?$', q, re.I)
        if not m: raise Unsupported('sql outside the modelled subset: ' + q)
        name = m.group(2)
        if name in db.views:
            return select_view(e, db, db.views[name], m.group(1), q)
        t = table(db, name, q)
        cols = t.cols if m.group(1).strip() == '*' else [c.strip() for c in m.group(1).split(',')]
        for c in cols:
            if c not in t.types: return None, None, mkerr('no such column: ' + c)
        cond, err = where_cond(e, t, q, args)
        if err is not None: return None, None, err
        out = []
        for r in t.rows:
            if e.branch(z3.And(pres(r), cond(r))): out.append(r)
        return cols, out, None
    def select_view(e, db, v, sel, q):
        if v is None: raise Unsupported('query on a view the model does not understand: ' + q)
        if sel.strip() != '*': raise Unsupported('view select list: ' + q)
        t = db.tabs[v.table]
        groups = []     # [key value, sum]
        for r in t.rows:
            if not e.branch(pres(r)): continue
            k = r.c[v.key]
            for g in groups:
                if e.branch(veq(e, g[0], k)):
                    g[1] = e.intop('+', g[1], r.c[v.col], 64, True); break
            else: groups.append([k, r.c[v.col]])
        rows = [Row(True, {'k': g[0], 'v': g[1]}) for g in groups]
        return ['k', 'v'], rows, None

    def do_update(e, db, q, args):
        m = re.match(r'UPDATE (\w+) SET (.*?) WHERE (\w+) ?= ?\?$', q, re.I)
        if not m: raise Unsupported('sql outside the modelled subset: ' + q)
        t = table(db, m.group(1), q)
        sets = []
        for x in m.group(2).split(','):
            l, r = [y.strip() for y in x.split('=')]
            if r != '?': raise Unsupported('sql update value: ' + q)
            sets.append(l)
        wc = m.group(3)
        if len(args) != len(sets) + 1: return None, mkerr('sql: expected %d arguments, got %d' % (len(sets) + 1, len(args)))
        for c in sets + [wc]:
            if c not in t.types: return None, mkerr('no such column: ' + c)
        cnt = 0; new = []
        for r in t.rows:
            if e.branch(z3.And(pres(r), veq(e, r.c[wc], args[len(sets)]))):
                nc = dict(r.c)
                for k, v in zip(sets, args): nc[k] = v
                new.append(Row(True, nc)); cnt += 1
            else: new.append(r)
        # uniqueness after update is not re-checked: no statement of the repo updates a key column
        for k in sets:
            if [k] == t.pk or [k] in t.unique: raise Unsupported('update of a key column')
        t.rows = new
        return cnt, None
    def do_delete(e, db, q, args):
        m = re.match(r'DELETE FROM (\w+) WHERE (\w+) ?= ?\?$', q, re.I)
        if not m: raise Unsupported('sql outside the modelled subset: ' + q)
        t = table(db, m.group(1), q); keep = []; cnt = 0
        if len(args) != 1: return None, mkerr('sql: expected 1 arguments, got %d' % len(args))
        for r in t.rows:
            if e.branch(z3.And(pres(r), veq(e, r.c[m.group(2)], args[0]))): cnt += 1
            else: keep.append(r)
        t.rows = keep
        return cnt, None
    def norm(q):
        if q.c is None: raise Unsupported('symbolic sql text')
        return ' '.join(q.c.split())
    def run_exec(e, db, q, args):
        if args is None: return (None, mkerr(HIGHBIT))
        u = q.upper()
        if u.startswith('INSERT'):
            err = do_insert(e, db, q, args)
            return (IfaceV('verif.sqlresult', 1), None) if err is None else (None, err)
        if u.startswith('UPDATE'):
            n, err = do_update(e, db, q, args)
            return (IfaceV('verif.sqlresult', n), None) if err is None else (None, err)
        if u.startswith('DELETE'):
            n, err = do_delete(e, db, q, args)
            return (IfaceV('verif.sqlresult', n), None) if err is None else (None, err)
        raise Unsupported('sql exec outside the modelled subset: ' + q)

    def begin(e, a):
        db = db_of(e, a[0])
        snap = {n: list(t.rows) for n, t in db.tabs.items()}
        db.open_tx += 1
        return (Ptr(Box(Opaque('tx', [db, snap, True]))), None)
    I['(*database/sql.DB).Begin'] = begin
    def prepare(e, a):
        tx = e.peek(a[0]).val
        q = norm(a[1])
        u = q.upper()
        if u.startswith('INSERT'): parse_insert(q)
        return (Ptr(Box(Opaque('stmt', (tx[0], q)))), None)
    I['(*database/sql.Tx).Prepare'] = prepare
    I['(*database/sql.Stmt).Close'] = lambda e, a: None
    def stmt_exec(e, a):
        db, q = e.peek(a[0]).val
        return run_exec(e, db, q, args_of(e, a[1]))
    I['(*database/sql.Stmt).Exec'] = stmt_exec
    def rollback(e, a):
        tx = e.peek(a[0]).val
        if not tx[2]: return mkerr('sql: transaction has already been committed or rolled back')
        for n, rows in tx[1].items(): tx[0].tabs[n].rows = rows
        tx[2] = False; tx[0].open_tx -= 1
        return None
    I['(*database/sql.Tx).Rollback'] = rollback
    def commit(e, a):
        tx = e.peek(a[0]).val
        if not tx[2]: return mkerr('sql: transaction has already been committed or rolled back')
        tx[2] = False; tx[0].open_tx -= 1
        return None
    I['(*database/sql.Tx).Commit'] = commit
    I['(*database/sql.DB).Exec'] = lambda e, a: run_exec(e, db_of(e, a[0]), norm(a[1]), args_of(e, a[2]))
    I['method:verif.sqlresult.RowsAffected'] = lambda e, a: (a[0].v, None)
    I['invoke:database/sql.Result.RowsAffected'] = lambda e, a: (a[0].v, None)
    def query(e, a):
        db = db_of(e, a[0]); q = norm(a[1]); args = args_of(e, a[2])
        if args is None: return (None, mkerr(HIGHBIT))
        cols, rows, err = select_rows(e, db, q, args)
        if err is not None: return (None, err)
        return (Ptr(Box(Opaque('rows', [cols, rows, -1]))), None)
    I['(*database/sql.DB).Query'] = query
    I['(*database/sql.Rows).Close'] = lambda e, a: None
    I['(*database/sql.Rows).Err'] = lambda e, a: None
    def rows_next(e, a):
        st = e.peek(a[0]).val; st[2] += 1
        return st[2] < len(st[1])
    I['(*database/sql.Rows).Next'] = rows_next

    NULLT = {'database/sql.NullString': 'str', 'database/sql.NullBool': 'bool', 'database/sql.NullInt64': 'int'}
    def scan_into(e, cols, row, dests):
        if len(cols) != len(dests): return mkerr('sql: expected %d destination arguments in Scan, not %d' % (len(cols), len(dests)))
        for c, d in zip(cols, dests):
            p = d.v; pt = d.t
            tt = e.types[pt]['elem']
            v = row.c[c]
            if tt in NULLT:
                zero = {'str': StrV(c=''), 'bool': False, 'int': 0}[NULLT[tt]]
                e.store(p, StructV([zero, False]) if v is None else StructV([conv_basic(e, v, NULLT[tt]), True]))
                continue
            if v is None: return mkerr('sql: Scan error: converting NULL to %s is unsupported' % tt)
            ut, dd = e.under(tt)
            if dd['k'] != 'basic': raise Unsupported('Scan into ' + tt)
            n = dd['name']
            if 'string' in n:
                if isinstance(v, StrV): e.store(p, v)
                elif isinstance(v, bool) or z3.is_bool(v): raise Unsupported('Scan bool into string')
                else:
                    c0 = e.conc(v)
                    e.store(p, StrV(c=str(sgn(c0, 64))) if c0 is not None else StrV(t=itoa(v)))
            elif 'bool' in n:
                if isinstance(v, StrV): return mkerr('sql: Scan error: couldn\'t convert string into bool')
                if not (isinstance(v, bool) or z3.is_bool(v)): v = (v != 0)
                e.store(p, v)
            else:
                if isinstance(v, StrV): raise Unsupported('Scan text into integer')
                if isinstance(v, bool) or z3.is_bool(v): v = z3.If(v, z3.BitVecVal(1, 64), z3.BitVecVal(0, 64)) if not isinstance(v, bool) else int(v)
                b = BITS[n]; s = n in SIGNED
                # range check of the stored int64 against the destination type
                if isinstance(v, int):
                    x = sgn(v, 64)
                    lo, hi = (-(1 << (b - 1)), (1 << (b - 1)) - 1) if s else (0, (1 << b) - 1)
                    if not lo <= x <= hi: return mkerr('sql: Scan error: value out of range')
                    e.store(p, x & ((1 << b) - 1))
                else:
                    if s and b == 64: e.store(p, v)
                    else:
                        lim = (1 << (b - 1)) if s else ((1 << b) if b < 64 else (1 << 63))
                        if e.branch(z3.UGE(v, lim)): return mkerr('sql: Scan error: value out of range')
                        e.store(p, v if b == 64 else z3.Extract(b - 1, 0, v))
        return None
    def conv_basic(e, v, kind):
        if kind == 'str':
            if isinstance(v, StrV): return v
            raise Unsupported('NullString from non-text')
        if kind == 'bool':
            if isinstance(v, bool) or z3.is_bool(v): return v
            return v != 0
        if isinstance(v, bool) or z3.is_bool(v): raise Unsupported('NullInt64 from bool')
        return v
    def rows_scan(e, a):
        st = e.peek(a[0]).val
        if not (0 <= st[2] < len(st[1])): return mkerr('sql: Scan called without calling Next')
        return scan_into(e, st[0], st[1][st[2]], slist(a[1]))
    I['(*database/sql.Rows).Scan'] = rows_scan
    def queryrow(e, a):
        db = db_of(e, a[0]); q = norm(a[1]); args = args_of(e, a[2])
        if args is None: return Ptr(Box(Opaque('row', (None, None, mkerr(HIGHBIT)))))
        cols, rows, err = select_rows(e, db, q, args)
        return Ptr(Box(Opaque('row', (cols, rows, err))))
    I['(*database/sql.DB).QueryRow'] = queryrow
    def row_scan(e, a):
        cols, rows, err = e.peek(a[0]).val
        if err is not None: return err
        if not rows: return err_norows(e)
        return scan_into(e, cols, rows[0], slist(a[1]))
    I['(*database/sql.Row).Scan'] = row_scan
    I['(*database/sql.DB).Close'] = lambda e, a: None
    I['(*database/sql.DB).Ping'] = lambda e, a: None
    I['(*database/sql.DB).SetMaxOpenConns'] = lambda e, a: None

    # ---- snapshots / comparison of the whole database state (C06 failure atomicity)
    def snapshot(e, a):
        db = db_of(e, a[0])
        db.snaps.append({n: list(t.rows) for n, t in db.tabs.items()})
        return len(db.snaps) - 1
    I[RT + 'SqlSnapshot'] = snapshot
    def roweq(e, t, r1, r2):
        cs = []
        for c in t.cols:
            x, y = r1.c[c], r2.c[c]
            if x is None or y is None: cs.append(z3.BoolVal(x is None and y is None))
            else: cs.append(veq(e, x, y))
        return z3.And(cs)
    def same(e, a):
        db = db_of(e, a[0]); A, B = db.snaps[e.conc(a[1])], db.snaps[e.conc(a[2])]
        conds = []
        for n, t in db.tabs.items():
            ra = [r for r in A[n] if not any(r is x for x in B[n])]
            rb = [r for r in B[n] if not any(r is x for x in A[n])]
            if not ra and not rb: continue
            allr = ra + rb
            for r in allr:
                ca = z3.Sum([z3.If(z3.And(pres(x), roweq(e, t, r, x)), 1, 0) for x in ra]) if ra else z3.IntVal(0)
                cb = z3.Sum([z3.If(z3.And(pres(x), roweq(e, t, r, x)), 1, 0) for x in rb]) if rb else z3.IntVal(0)
                conds.append(z3.Implies(pres(r), ca == cb))
        return z3.And(conds) if conds else True
    I[RT + 'SqlSame'] = same
    def count(e, a):
        db = db_of(e, a[0]); t = db.tabs[a[1].c]; col = a[2].c; val = a[3]
        w = max(2, len(t.rows).bit_length() + 2)
        s = z3.BitVecVal(0, w)
        for r in t.rows: s = s + z3.If(z3.And(pres(r), veq(e, r.c[col], val)), z3.BitVecVal(1, w), z3.BitVecVal(0, w))
        return Opaque('Z', s)
    I[RT + 'SqlCount'] = count
