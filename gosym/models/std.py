# Models of the Go standard library functions the repository calls (DESIGN.md 4.1, 4.6, Appendix C).
import math, itertools
import z3
from ..sym import *
from ..core import *

ERRSTR = '*errors.errorString'
WRAPERR = '*fmt.wrapError'

def mkerr(msg, wrapped=None):
    if isinstance(msg, str): msg = StrV(c=msg)
    if wrapped is None: return IfaceV(ERRSTR, Ptr(Box(StructV([msg]))))
    return IfaceV(WRAPERR, Ptr(Box(StructV([msg, wrapped]))))

def slist(sl): return [] if sl is None else list(sl.elems())

def gofmt(e, fmt, args):
    """fmt.Sprintf for the simple verbs when everything is concrete; else None"""
    out = []; i = 0; k = 0
    while i < len(fmt):
        ch = fmt[i]
        if ch != '%': out.append(ch); i += 1; continue
        if i + 1 >= len(fmt): return None
        v = fmt[i + 1]; i += 2
        if v == '%': out.append('%'); continue
        if k >= len(args): return None
        a = args[k]; k += 1
        if isinstance(a, IfaceV): a = a.v
        if isinstance(a, StrV) and a.c is not None and v in 'svq':
            out.append(a.c if v != 'q' else '"' + a.c + '"')
        elif isinstance(a, int) and not isinstance(a, bool) and v in 'dv': out.append(str(a))
        elif isinstance(a, bool) and v in 'vt': out.append('true' if a else 'false')
        else: return None
    return ''.join(out)

def install(E):
    I = E.intr
    E.mkerr = mkerr
    fresh = itertools.count()

    # ------------------------------------------------------------ errors / fmt
    I['errors.New'] = lambda e, a: mkerr(a[0])
    def opaque_fmt(e, a):
        fm = a[0]; args = slist(a[1])
        if fm.c is not None:
            r = gofmt(e, fm.c, args)
            if r is not None: return StrV(c=r)
        k = e.P.g['fmtcnt'] = e.P.g.get('fmtcnt', 0) + 1
        return StrV(t=fmtstr(z3.IntVal(k)))
    I['fmt.Sprintf'] = opaque_fmt
    def errorf(e, a):
        fm = a[0]; args = slist(a[1])
        wrapped = None
        if fm.c is not None and '%w' in fm.c:
            for x in args:
                if isinstance(x, IfaceV) and 'Error' in e.methods.get(x.t, {'Error': 1} if x.t in (ERRSTR, WRAPERR) else {}): wrapped = x
        msg = opaque_fmt(e, a)
        return mkerr(msg, wrapped) if wrapped is not None else mkerr(msg)
    I['fmt.Errorf'] = errorf
    I['fmt.Println'] = lambda e, a: (0, None)
    I['fmt.Printf'] = lambda e, a: (0, None)
    I['fmt.Print'] = lambda e, a: (0, None)
    I['fmt.Sprint'] = lambda e, a: StrV(t=fmtstr(z3.IntVal(next(fresh) + 100000)))
    def err_error(e, a):
        r = a[0]
        if r.t in (ERRSTR, WRAPERR): return e.load(r.v).f[0]
        return e.invoke(r, 'Error', [], 'error')
    I['invoke:error.Error'] = err_error
    I['method:%s.Error' % ERRSTR] = err_error
    I['method:%s.Error' % WRAPERR] = err_error
    def unwrap(e, x):
        if x is not None and x.t == WRAPERR: return e.load(x.v).f[1]
        return None
    def errors_is(e, a):
        err, target = a
        conds = []
        while err is not None:
            c = e.refeq(err, target)
            if c is True: return True
            if c is not False: conds.append(c)
            err = unwrap(e, err)
        return e.bor(*conds) if conds else False
    I['errors.Is'] = errors_is
    def errors_as(e, a):
        err, target = a          # target: any holding *T
        pt = target.t
        tt = e.types[pt]['elem']
        while err is not None:
            if err.t == tt:
                e.store(target.v, err.v); return True
            if e.kind(tt) == 'iface' and all(mn in e.methods.get(err.t, {}) for mn in (e.under(tt)[1]['methods'] or [])):
                e.store(target.v, err); return True
            err = unwrap(e, err)
        return False
    I['errors.As'] = errors_as

    # ------------------------------------------------------------ hex / base64
    def note_dec(e, src, kind, res, valid):
        e.P.keep.append(src)
        e.P.g.setdefault('dec', {}).setdefault(src.get_id(), []).append((kind, res, valid))
    E.note_dec = note_dec
    I['encoding/hex.EncodeToString'] = lambda e, a: e.hexenc(e.tobytes(a[0]))
    def hexdecode(e, a):
        s = a[0]
        ok, val = e.hexdec_ok(s)
        if ok is True: return (BytesV(val), None)
        if ok is False: return (None, mkerr('encoding/hex: invalid byte or odd length'))
        note_dec(e, s.t, 'hex', val.t, ok)
        if e.branch(ok): return (BytesV(val), None)
        return (None, mkerr('encoding/hex: invalid byte or odd length'))
    I['encoding/hex.DecodeString'] = hexdecode
    # base64: global encodings are opaque objects
    E.lazy_globals['encoding/base64.URLEncoding'] = lambda e: Ptr(Box(Opaque('b64enc', 'url')))
    E.lazy_globals['encoding/base64.RawURLEncoding'] = lambda e: Ptr(Box(Opaque('b64enc', 'rawurl')))
    E.lazy_globals['encoding/base64.StdEncoding'] = lambda e: Ptr(Box(Opaque('b64enc', 'std')))
    def b64kind(e, p): return e.peek(p).val
    def b64encode(e, a):
        import base64
        kind = b64kind(e, a[0]); s = e.tobytes(a[1])
        if s.c is not None:
            raw = s.c.encode('latin-1')
            r = {'url': base64.urlsafe_b64encode(raw), 'rawurl': base64.urlsafe_b64encode(raw).rstrip(b'='), 'std': base64.b64encode(raw)}[kind]
            return StrV(c=r.decode('latin-1'))
        f, v, d = (b64enc, validb64, b64dec) if kind != 'rawurl' else (b64rawenc, validb64raw, b64rawdec)
        t = f(s.t)
        e.ax(('b64e', t.get_id()), v(t), d(t) == s.t, z3.ULE(slen(s.t), slen(t)))
        return StrV(t=t)
    I['(*encoding/base64.Encoding).EncodeToString'] = b64encode
    def b64decode(e, a):
        import base64, binascii
        kind = b64kind(e, a[0]); s = a[1]
        if s.c is not None:
            try:
                raw = s.c.encode('latin-1')
                if kind == 'rawurl':
                    if b'=' in raw: raise ValueError
                    raw += b'=' * (-len(raw) % 4)
                elif len(raw) % 4: raise ValueError
                alt = b'-_' if kind != 'std' else None
                return (BytesV(StrV(c=base64.b64decode(raw, altchars=alt, validate=True).decode('latin-1'))), None)
            except (ValueError, binascii.Error):
                return (None, mkerr('illegal base64 data'))
        f, v, d = (b64enc, validb64, b64dec) if kind != 'rawurl' else (b64rawenc, validb64raw, b64rawdec)
        if is_app_of(s.t, f.name()): return (BytesV(e.tostr(s.t.arg(0))), None)
        other = b64rawenc if kind != 'rawurl' else b64enc
        if is_app_of(s.t, other.name()):
            # text produced by the other URL alphabet variant: it differs only in the padding, so where it is acceptable
            # at all (length a multiple of 4 / no padding needed) it decodes to the same bytes
            if e.branch(v(s.t)): return (BytesV(e.tostr(s.t.arg(0))), None)
            return (None, mkerr('illegal base64 data'))
        t = d(s.t)
        e.ax(('b64d', t.get_id()), z3.Implies(v(s.t), z3.ULE(slen(t), slen(s.t))), z3.Implies(slen(t) == 0, t == e.lit('')))
        note_dec(e, s.t, 'b64' if kind != 'rawurl' else 'b64raw', t, v(s.t))
        if e.branch(v(s.t)): return (BytesV(StrV(t=t)), None)
        return (None, mkerr('illegal base64 data'))
    I['(*encoding/base64.Encoding).DecodeString'] = b64decode

    # TrimSpace: concrete text, or literal white space concatenated around an encoder output (which has none of its own)
    def trim_space(e, a, isbytes):
        s = e.tobytes(a[0]) if isbytes else a[0]
        if s.c is not None:
            r = StrV(c=s.c.strip(' \t\r\n\v\f\x85\xa0'))
        else:
            r = e.peel_ws(e, s) if getattr(e, 'peel_ws', None) else s
            if r.c is None and e.json_tree_of(e, r) is None: raise Unsupported('TrimSpace of a symbolic string that is not an encoder output')
        return BytesV(r) if isbytes else r
    I['bytes.TrimSpace'] = lambda e, a: trim_space(e, a, True)
    I['strings.TrimSpace'] = lambda e, a: trim_space(e, a, False)

    # ------------------------------------------------------------ strconv / strings
    def itoa_(e, a):
        c = e.conc(a[0])
        if c is not None: return StrV(c=str(sgn(c, 64)))
        t = itoa(a[0]); e.ax(('itoa', t.get_id()), z3.UGE(slen(t), 1), z3.ULE(slen(t), 20))
        return StrV(t=t)
    I['strconv.Itoa'] = itoa_
    I['strconv.FormatInt'] = lambda e, a: itoa_(e, a) if e.conc(a[1]) == 10 else (_ for _ in ()).throw(Unsupported('FormatInt base'))
    def parseint(e, a):
        s, base, bits = a
        bits = e.conc(bits) or 64
        lo, hi = -(1 << (bits - 1)), (1 << (bits - 1)) - 1
        if s.c is not None:
            txt = s.c
            ok = len(txt) > 0 and (txt.lstrip('+-').isdigit() and txt.count('+') + txt.count('-') <= 1 and txt[1:].isdigit() if txt[0] in '+-' else txt.isdigit())
            if not ok: return (0, mkerr('strconv.ParseInt: invalid syntax'))
            v = int(txt)
            if not lo <= v <= hi: return ((hi if v > 0 else lo) & ((1 << 64) - 1), mkerr('strconv.ParseInt: value out of range'))
            return (v & ((1 << 64) - 1), None)
        t = s.t
        if is_app_of(t, 'itoa'):
            v = t.arg(0)
            if bits < 64 and e.branch(z3.Not(z3.And(v >= lo, v <= hi))): return (0, mkerr('strconv.ParseInt: value out of range'))
            return (v, None)
        raise Unsupported('ParseInt of opaque string')
    I['strconv.ParseInt'] = parseint
    def atoi(e, a):
        r = parseint(e, [a[0], 10, 64]); return r
    I['strconv.Atoi'] = atoi
    def repeat(e, a):
        n = e.concretize(a[1], what='strings.Repeat count')
        if n >= 1 << 63: raise GoPanic('strings: negative Repeat count')
        if a[0].c is None: raise Unsupported('Repeat of symbolic string')
        if n * len(a[0].c) > 1 << 20: raise Unsupported('huge Repeat')
        return StrV(c=a[0].c * n)
    I['strings.Repeat'] = repeat
    def tolower_(e, a):
        if a[0].c is not None: return StrV(c=a[0].c.lower())
        t = tolower(a[0].t); e.ax(('lower', t.get_id()), slen(t) == slen(a[0].t)); return StrV(t=t)
    I['strings.ToLower'] = tolower_
    def contains(e, a):
        if a[0].c is not None and a[1].c is not None: return a[1].c in a[0].c
        raise Unsupported('strings.Contains symbolic')
    I['strings.Contains'] = contains
    def split(e, a):
        if a[0].c is not None and a[1].c is not None: return mkslice([StrV(c=x) for x in a[0].c.split(a[1].c)])
        raise Unsupported('strings.Split symbolic')
    I['strings.Split'] = split
    def head_lit(e, s):
        """(literal head, has symbolic rest) of a string value"""
        if s.c is not None: return s.c, False
        t = s.t
        if is_app_of(t, 'sconcat'):
            h = e.tostr(t.arg(0))
            if h.c is not None: return h.c, True
        return '', True
    def conc2(f, sym=None):
        def g(e, a):
            if a[0].c is not None and a[1].c is not None: return f(a[0].c, a[1].c)
            if sym is not None and a[1].c is not None:
                r = sym(e, a[0], a[1].c)
                if r is not None: return r
            raise Unsupported('string search on symbolic text')
        return g
    def sym_prefix(e, s, p):
        h, rest = head_lit(e, s)
        if len(p) <= len(h): return h.startswith(p)
        if not h.startswith(p[:len(h)]): return False
        return None
    def sym_index(e, s, p):
        h, rest = head_lit(e, s)
        i = h.find(p)
        return i if i >= 0 else None
    I['strings.HasPrefix'] = conc2(lambda s, p: s.startswith(p), sym_prefix)
    I['strings.HasSuffix'] = conc2(lambda s, p: s.endswith(p))
    I['strings.Index'] = conc2(lambda s, p: s.find(p) & ((1 << 64) - 1), sym_index)

    # ------------------------------------------------------------ bytes.Buffer / binary
    E.ext_zero['bytes.Buffer'] = lambda e: Opaque('buf', StrV(c=''))
    def buf_write(e, a):
        b = e.peek(a[0]); e.store(a[0], Opaque('buf', e.sconcat(b.val, e.tobytes(a[1])))); return (e.builtin('len', [a[1]], None), None)
    I['(*bytes.Buffer).Write'] = buf_write
    def buf_writebyte(e, a):
        b = e.peek(a[0]); e.store(a[0], Opaque('buf', e.sconcat(b.val, e.pack([a[1]])))); return None
    I['(*bytes.Buffer).WriteByte'] = buf_writebyte
    I['(*bytes.Buffer).WriteString'] = lambda e, a: (e.store(a[0], Opaque('buf', e.sconcat(e.peek(a[0]).val, a[1]))), (e.strlen(a[1]), None))[1]
    I['(*bytes.Buffer).Bytes'] = lambda e, a: BytesV(e.peek(a[0]).val)
    I['(*bytes.Buffer).String'] = lambda e, a: e.peek(a[0]).val
    I['bytes.NewBuffer'] = lambda e, a: Ptr(Box(Opaque('buf', e.tobytes(a[0]))))
    I['bytes.NewReader'] = lambda e, a: Ptr(Box(Opaque('buf', e.tobytes(a[0]))))
    def put_u32_le(e, a):
        dst, v = a[1], a[2]
        if dst.len < 4: raise GoPanic('index out of range')
        for k in range(4):
            byte = (v >> (8 * k)) & 0xff if isinstance(v, int) else z3.Extract(8 * k + 7, 8 * k, v)
            dst.arr.v.e[dst.off + k] = byte
        return None
    I['(encoding/binary.littleEndian).PutUint32'] = put_u32_le
    def put_u32_be(e, a):
        dst, v = a[1], a[2]
        if dst.len < 4: raise GoPanic('index out of range')
        for k in range(4):
            sh = 8 * (3 - k)
            dst.arr.v.e[dst.off + k] = (v >> sh) & 0xff if isinstance(v, int) else z3.Extract(sh + 7, sh, v)
        return None
    I['(encoding/binary.bigEndian).PutUint32'] = put_u32_be
    def be_u64(e, a):
        b = a[1]
        n = e.builtin('len', [b], None)
        if isinstance(n, int):
            if n < 8: raise GoPanic('index out of range [7]')
        elif e.branch(z3.ULT(n, 8)): raise GoPanic('index out of range [7]')
        s = e.tobytes(b)
        if s.c is not None: return int.from_bytes(s.c[:8].encode('latin-1'), 'big')
        els = [e.sbyte(s, k) for k in range(8)]
        return z3.Concat([x if not isinstance(x, int) else z3.BitVecVal(x, 8) for x in els])
    I['(encoding/binary.bigEndian).Uint64'] = be_u64
    E.lazy_globals['encoding/binary.LittleEndian'] = lambda e: StructV([])
    E.lazy_globals['encoding/binary.BigEndian'] = lambda e: StructV([])

    # ------------------------------------------------------------ math
    I['math.Pow'] = lambda e, a: math.pow(a[0], a[1])
    I['math.Exp2'] = lambda e, a: math.pow(2.0, a[0])
    I['math.Ceil'] = lambda e, a: float(math.ceil(a[0]))
    I['math.Floor'] = lambda e, a: float(math.floor(a[0]))
    I['math.Log2'] = lambda e, a: math.log2(a[0]) if a[0] > 0 else float('-inf')
    I['math.Max'] = lambda e, a: max(a[0], a[1])

    # ------------------------------------------------------------ sort / slices / reflect
    def sort_slice(e, a):
        s, less = a[0].v, a[1]
        if s is None: return None
        n = s.len
        for i in range(1, n):
            j = i
            while j > 0:
                r = e.call(less, [j, j - 1])
                if not e.branch(r): break
                A = s.arr.v.e
                A[s.off + j], A[s.off + j - 1] = A[s.off + j - 1], A[s.off + j]
                j -= 1
        return None
    I['sort.Slice'] = sort_slice
    def slices_sort(e, a):
        s = a[0]
        if s is None: return None
        A = s.arr.v.e
        vals = A[s.off:s.off + s.len]
        if all(isinstance(v, int) for v in vals):
            A[s.off:s.off + s.len] = sorted(vals); return None
        for i in range(1, s.len):
            j = i
            while j > 0:
                x, y = A[s.off + j], A[s.off + j - 1]
                if not e.branch(z3.ULT(e.bv(x), e.bv(y))): break
                A[s.off + j], A[s.off + j - 1] = y, x
                j -= 1
        return None
    def sl_delete(e, a):
        s, i, j = a[0], e.concretize(a[1]), e.concretize(a[2])
        if s is None: s = mkslice([])
        if not (0 <= i <= j <= s.len): raise GoPanic('slice bounds out of range (slices.Delete)')
        els = s.elems()
        new = els[:i] + els[j:]
        for k, v in enumerate(new): s.arr.v.e[s.off + k] = v
        for k in range(len(new), s.len): s.arr.v.e[s.off + k] = zero_like(els[k])
        return SliceV(s.arr, s.off, len(new), s.cap)
    def zero_like(v):
        if isinstance(v, (Ptr, SliceV, MapV, IfaceV, FuncV)) or v is None: return None
        if isinstance(v, StrV): return StrV(c='')
        if isinstance(v, bool): return False
        if isinstance(v, int) or z3.is_bv(v): return 0
        if isinstance(v, StructV): return StructV([zero_like(x) for x in v.f])
        return v
    def sl_insert(e, a):
        s, i, vs = a[0], e.concretize(a[1]), a[2]
        if s is None: s = mkslice([])
        if not (0 <= i <= s.len): raise GoPanic('index out of range (slices.Insert)')
        els = s.elems()
        ins = [copyv(v) for v in vs.elems()] if vs is not None else []
        return mkslice(els[:i] + ins + els[i:])
    def sl_indexfunc(e, a):
        s, f = a
        for k, v in enumerate(slist(s)):
            if e.branch(e.call(f, [copyv(v)])): return k
        return (1 << 64) - 1
    def sl_contains(e, a):
        s, x = a
        return e.bor(*[e.valeq(v, x) for v in slist(s)])
    def sl_equal(e, a):
        x, y = a
        if isinstance(x, BytesV) or isinstance(y, BytesV) or True:
            try: return e.streq(e.tobytes(x), e.tobytes(y))
            except Unsupported: pass
        xs, ys = slist(x), slist(y)
        if len(xs) != len(ys): return False
        return e.band(*[e.valeq(p, q) for p, q in zip(xs, ys)])
    E.prefix_intr += [('slices.Delete[', sl_delete), ('slices.Insert[', sl_insert), ('slices.IndexFunc[', sl_indexfunc),
                      ('slices.Contains[', sl_contains), ('slices.Sort[', slices_sort), ('slices.Equal[', sl_equal)]
    def deep(e, x, y):
        if isinstance(x, IfaceV) and isinstance(y, IfaceV):
            if x.t != y.t: return False
            return deep(e, x.v, y.v)
        if x is None or y is None:
            return x is None and y is None
        if isinstance(x, (BytesV, StrV)) or isinstance(y, (BytesV, StrV)): return e.streq(e.tobytes(x), e.tobytes(y))
        if isinstance(x, SliceV) and isinstance(y, SliceV):
            if x.len != y.len: return False
            return e.band(*[deep(e, p, q) for p, q in zip(x.elems(), y.elems())])
        if isinstance(x, Ptr) and isinstance(y, Ptr):
            if x == y: return True
            return deep(e, e.peek(x), e.peek(y))
        if isinstance(x, StructV): return e.band(*[deep(e, p, q) for p, q in zip(x.f, y.f)])
        if isinstance(x, ArrayV): return e.band(*[deep(e, p, q) for p, q in zip(x.e, y.e)])
        return e.valeq(x, y)
    I['reflect.DeepEqual'] = lambda e, a: deep(e, a[0], a[1])

    # ------------------------------------------------------------ time / context / sync / logging
    E.ext_zero['time.Time'] = lambda e: Opaque('time', 0)
    def now(e, a):
        g = e.P.g
        k = g['nowcnt'] = g.get('nowcnt', 0) + 1
        t = z3.BitVec('now%d' % k, 64)
        prev = g.get('now_last')
        if prev is None:
            e.assume(z3.And(t >= (1 << 30), t < (1 << 40)))      # 2004 .. far future; the real clock is inside
            g['now0'] = t
        else:
            e.assume(z3.And(t >= prev, t <= g['now0'] + 5))       # stated: a harness run takes < 5 s of wall time
        g['now_last'] = t
        return Opaque('time', t)
    I['time.Now'] = now
    I['(time.Time).Local'] = lambda e, a: a[0]
    I['(time.Time).UTC'] = lambda e, a: a[0]
    I['(time.Time).Unix'] = lambda e, a: a[0].val
    def time_add(e, a):
        d = e.conc(a[1])
        if d is None:
            return Opaque('time', z3.BitVec('tadd%d' % next(fresh), 64))
        return Opaque('time', e.intop('+', a[0].val, (sgn(d, 64) // 10 ** 9) & ((1 << 64) - 1), 64, True))
    I['(time.Time).Add'] = time_add
    I['(time.Time).After'] = lambda e, a: e.intop('>', a[0].val, a[1].val, 64, True)
    I['(time.Time).Before'] = lambda e, a: e.intop('<', a[0].val, a[1].val, 64, True)
    I['(time.Time).Truncate'] = lambda e, a: a[0]
    I['(time.Time).Format'] = lambda e, a: StrV(t=fmtstr(z3.IntVal(next(fresh) + 200000)))
    I['context.Background'] = lambda e, a: IfaceV('verif.ctx', Opaque('ctx', None))
    I['context.TODO'] = I['context.Background']
    I['verif.noop'] = lambda e, a: None
    I['context.WithTimeout'] = lambda e, a: (a[0], FuncV('verif.noop'))
    I['context.WithCancel'] = lambda e, a: (a[0], FuncV('verif.noop'))
    I['invoke:context.Context.Done'] = lambda e, a: None
    I['invoke:context.Context.Err'] = lambda e, a: None
    for m in ('(*sync.Mutex).Lock', '(*sync.Mutex).Unlock', '(*sync.RWMutex).Lock', '(*sync.RWMutex).Unlock',
              '(*sync.RWMutex).RLock', '(*sync.RWMutex).RUnlock', '(*sync.WaitGroup).Add', '(*sync.WaitGroup).Done', '(*sync.WaitGroup).Wait'):
        I[m] = lambda e, a: None
    E.ext_zero['sync.Mutex'] = lambda e: Opaque('mutex', 0)
    E.ext_zero['sync.RWMutex'] = lambda e: Opaque('mutex', 0)
    E.ext_zero['sync.WaitGroup'] = lambda e: Opaque('wg', 0)
    # logging never matters: everything in log, log/slog, runtime is an empty body (DESIGN.md 5.1)
    I['(*log/slog.Logger).Enabled'] = lambda e, a: False
    I['(*log/slog.Logger).Handler'] = lambda e, a: IfaceV('verif.sloghandler', None)
    I['invoke:log/slog.Handler.Handle'] = lambda e, a: None
    I['method:verif.sloghandler.Handle'] = lambda e, a: None
    I['runtime.Callers'] = lambda e, a: 0
    E.ext_zero['log/slog.Record'] = lambda e: Opaque('slogrec', None)
    I['log/slog.NewRecord'] = lambda e, a: Opaque('slogrec', None)
    noop = lambda e, a: None
    E.prefix_intr += [('(*log/slog.', noop), ('log/slog.', noop), ('(log/slog.', noop), ('log.', noop), ('(*log.', noop)]
    # crypto/rand: fresh bytes
    def rand_read(e, a):
        b = a[0]
        k = e.P.g['randcnt'] = e.P.g.get('randcnt', 0) + 1
        t = z3.Const('rand%d' % k, Str)
        e.assume(slen(t) == b.len)
        prev = e.P.g.setdefault('rands', [])
        for p in prev: e.assume(t != p)       # fresh values are distinct
        prev.append(t)
        for j in range(b.len): b.arr.v.e[b.off + j] = sbyte(t, z3.BitVecVal(j, 64))
        return (b.len, None)
    I['crypto/rand.Read'] = rand_read
