# Repo functions replaced by summaries (DESIGN.md 4.6): pure callees that would only multiply paths.
import z3
from ..sym import *
from ..core import *
from .std import mkerr

M = 'github.com/elnosh/gonuts/'

def install(E, names):
    I = E.intr
    noop = lambda e, a: None
    # the mint's logging helpers and the publisher never matter (always summarised)
    for n in ('logInfof', 'logDebugf', 'logErrorf'):
        I['(*%smint.Mint).%s' % (M, n)] = noop
    I['(*%smint/pubsub.PubSub).Publish' % M] = noop
    I['(*%smint.Mint).publishProofsStateChanges' % M] = noop
    for n in names:
        if n == 'h2c':
            I[M + 'crypto.HashToCurve'] = E.h2c_summary
        elif n == 'nut10-none':
            # every secret is a plain (non NUT-10) secret
            I[M + 'cashu/nuts/nut10.DeserializeSecret'] = lambda e, a: (e.zero(M + 'cashu/nuts/nut10.WellKnownSecret'), mkerr('invalid NUT-10 secret'))
        elif n == 'loadmint-env':
            # LoadMint's file-system prologue: directory creation and logger set-up are no-ops, InitSQLite hands out the model
            # database of that path (created with the parsed schema on first use) - DESIGN.md C09
            I[M + 'mint.setupLogger'] = lambda e, a: (None, None)
            I['os.MkdirAll'] = lambda e, a: None
            def init_sqlite(e, a):
                path = a[0].c
                dbs = e.P.g.setdefault('sqlite_by_path', {})
                if path not in dbs:
                    dbs[path] = e.intr['github.com/elnosh/gonuts/verifrt.SqlDB'](e, [a[0]])
                return (Ptr(Box(StructV([dbs[path]]))), None)
            I[M + 'mint/storage/sqlite.InitSQLite'] = init_sqlite
        elif n == 'nut10':
            from . import nut10; nut10.install(E)
        else:
            raise RuntimeError('unknown summary ' + n)
