# Repo functions replaced by summaries (DESIGN.md 4.6): pure callees that would only multiply paths.
import z3
from ..sym import *
from ..core import *
from .std import mkerr

M = 'github.com/elnosh/gonuts/'

def install(E, names):
    I = E.intr
    noop = lambda e, a: None
    # the mint's logging helpers and the publisher never matter (always summarised)
    for n in ('logInfof', 'logDebugf', 'logErrorf'):
        I['(*%smint.Mint).%s' % (M, n)] = noop
    I['(*%smint/pubsub.PubSub).Publish' % M] = noop
    I['(*%smint.Mint).publishProofsStateChanges' % M] = noop
    for n in names:
        if n == 'padd-inj':
            # stated assumption: sums of points built from distinct operands are distinct (blinded messages Y + rG of
            # distinct (secret, r) pairs do not collide) - the free term algebra; no associativity rewrite exists in euf mode
            E.padd_inj = True
        elif n == 'h2c':
            I[M + 'crypto.HashToCurve'] = E.h2c_summary
        elif n == 'nut10-none':
            # every secret is a plain (non NUT-10) secret
            I[M + 'cashu/nuts/nut10.DeserializeSecret'] = lambda e, a: (e.zero(M + 'cashu/nuts/nut10.WellKnownSecret'), mkerr('invalid NUT-10 secret'))
        elif n == 'loadmint-env':
            # LoadMint's file-system prologue: directory creation and logger set-up are no-ops, InitSQLite hands out the model
            # database of that path (created with the parsed schema on first use) - DESIGN.md C09
            I[M + 'mint.setupLogger'] = lambda e, a: (None, None)
            I['os.MkdirAll'] = lambda e, a: None
            def init_sqlite(e, a):
                path = a[0].c
                dbs = e.P.g.setdefault('sqlite_by_path', {})
                if path not in dbs:
                    dbs[path] = e.intr['github.com/elnosh/gonuts/verifrt.SqlDB'](e, [a[0]])
                return (Ptr(Box(StructV([dbs[path]]))), None)
            I[M + 'mint/storage/sqlite.InitSQLite'] = init_sqlite
        elif n == 'dleq':
            # DLEQ generation / verification as a constructor / recogniser pair (the algebra itself is decided in C10):
            # a proof verifies iff it was generated for that key, blinded message and signature
            from .crypto import privval, pkval, mkpriv
            de = z3.Function('dleq_e', IntS, IntS, IntS, IntS); ds = z3.Function('dleq_s', IntS, IntS, IntS, IntS)
            def gen(e, a):
                k, B, C = privval(e, a[0]), pkval(e, a[1]), pkval(e, a[2])
                return (mkpriv(de(k, B, C)), mkpriv(ds(k, B, C)))
            def ver(e, a):
                ev, sv, A, B, C = privval(e, a[0]), privval(e, a[1]), pkval(e, a[2]), pkval(e, a[3]), pkval(e, a[4])
                if is_app_of(ev, 'dleq_e') and is_app_of(sv, 'dleq_s'):
                    return z3.And(e.pubof(e, ev.arg(0)) == A, ev.arg(1) == B, ev.arg(2) == C, sv.arg(0) == ev.arg(0), sv.arg(1) == B, sv.arg(2) == C)
                return False
            I[M + 'crypto.GenerateDLEQ'] = gen
            I[M + 'crypto.VerifyDLEQ'] = ver
        elif n == 'nut10':
            from . import nut10; nut10.install(E)
        else:
            raise RuntimeError('unknown summary ' + n)
