# Threads, crash points and storage faults as decision variables (DESIGN.md 3.4).
# Scheduling points are the instructions flagged 'sched' by the driver (invoke on storage.MintDB /
# lightning.Client / storage.WalletDB); a thread runs from one scheduling point to the next atomically.
import z3
from ..sym import *
from ..core import *
from .std import mkerr

RT = 'github.com/elnosh/gonuts/verifrt.'

def install(E):
    I = E.intr
    def threads(e): return e.P.g.setdefault('threads', [])
    def vgo(e, a):
        fv = a[0]
        r = e.call_fn(fv, [])
        if r[0] != 'push': return None
        ts = threads(e)
        ts.append(dict(stack=[r[1]], done=False, resumed=False, at=None, id=len(ts), fault=False))
        return None
    I[RT + 'Go'] = vgo
    def record(e, base, val):
        lab = e.label(base); e.P.nondets[lab] = ('int', val)
    def vjoin(e, a):
        bound = e.conc(a[0])
        last = None; preempt = 0
        ts = threads(e)
        while True:
            live = [t for t in ts if not t['done']]
            if not live: break
            if last is not None and not last['done'] and preempt >= bound: opts = [last]
            else: opts = live
            t = opts[e.choose(len(opts))] if len(opts) > 1 else opts[0]
            if len(live) > 1: record(e, 'sched', t['id'])
            if last is not None and not last['done'] and t is not last: preempt += 1
            e.P.trace.append('T%d:%s' % (t['id'], t['at'] or 'start'))
            t['resumed'] = t['at'] is not None     # the first step runs up to (not through) the first scheduling point
            r = e.run_frames(t['stack'], thread=t)
            if r != 'yield': t['done'] = True      # finished, or blocked for good (a select nothing will ever wake)
            last = t
        e.P.g['threads'] = []
        return None
    I[RT + 'Join'] = vjoin
    I[RT + 'Yield'] = lambda e, a: False

    def crash_or_fault_run(e, a, mode):
        r = e.call_fn(a[0], [])
        if r[0] != 'push': return False
        t = dict(stack=[r[1]], done=False, resumed=False, at=None, id=0, fault=False)
        k = 0; hit = None
        while True:
            res = e.run_frames(t['stack'], thread=t)
            if res != 'yield': break
            # only storage calls can fail / every scheduling point can be a crash point
            can = mode == 'crash' or t['at'].startswith('MintDB.') or t['at'].startswith('WalletDB.')
            if can and hit is None and e.choose(2) == 1:
                hit = (k, t['at'])
                e.P.trace.append('%s-before#%d:%s' % (mode, k, t['at']))
                r0 = e.stats['reached']; lab = '%s-before-%s' % (mode, t['at']); r0[lab] = r0.get(lab, 0) + 1
                if mode == 'crash': break
                t['fault'] = True
            k += 1; t['resumed'] = True
        record(e, 'crashAt' if mode == 'crash' else 'faultAt', hit[0] if hit else -1)
        e.P.g['crash_at_name'] = hit[1] if hit else ''
        e.P.g.setdefault('hits', []).append(hit[1] if hit else '')
        return hit is not None
    I[RT + 'CrashRun'] = lambda e, a: crash_or_fault_run(e, a, 'crash')
    I[RT + 'FaultRun'] = lambda e, a: crash_or_fault_run(e, a, 'fault')
    # name of the call before which the last CrashRun / FaultRun struck ("" if it did not)
    I[RT + 'HitAt'] = lambda e, a: StrV(c=(e.P.g.get('crash_at_name') or ''))

    # ---- minimal goroutines / channels (enough for mint/invoicesub.go): a `go` statement inside a harness thread starts
    # a coroutine that runs eagerly until it finishes or blocks sending on an unbuffered channel; a receive or select
    # takes the value of a parked sender and resumes it; a select with no ready case blocks the thread for good
    # (timers never fire: stated).
    def run_coroutine(e, co):
        r = e.run_frames(co['stack'], thread=co)
        if r == 'yield': raise Unsupported('scheduling point inside an inner goroutine')
        if r == 'blocked': return
        co['done'] = True
    def do_go(fr, i):
        if E.go_mode == 'ignore' and E.P.g.get('cur_thread') is None: return None
        if E.go_mode == 'ignore-all': return None        # stated per harness: background goroutines take no part
        c = i['call']; args = [E.val(fr, a) for a in c['args']]
        if 'invoke' in c:
            recv = E.val(fr, c['recv']); tgt = E.invoke_target(recv, c['invoke'], c['iface'])
            fv = FuncV(tgt); args = [recv.v] + args
        else: fv = E.val(fr, c['fn'])
        r = E.call_fn(fv, args)
        if r[0] != 'push': return None
        co = dict(stack=[r[1]], done=False, resumed=True, at=None, id=-1, fault=False, co=True)
        run_coroutine(E, co)
        return None
    E.do_go = do_go
    def chan_send(fr, i, ch, val):
        th = E.P.g.get('cur_thread')
        if ch is None: return ('block', None)
        if th is not None and th.get('sent_ok') is ch:
            th['sent_ok'] = None; return None          # resumed after the value was taken
        if not hasattr(ch, 'senders'): ch.senders = []
        if ch.cap > len(ch.buf):
            ch.buf.append(val); return None
        ch.senders.append((val, th))
        return ('block', ch)
    E.chan_send = chan_send
    def take(e, ch):
        """value of a parked sender / buffered element, or None"""
        if ch is None: return None
        if ch.buf: return (ch.buf.pop(0),)
        snd = getattr(ch, 'senders', [])
        if snd:
            val, co = snd.pop(0)
            if co is not None and co.get('co'):
                co['sent_ok'] = ch; co['resumed'] = True
                run_coroutine(e, co)
            return (val,)
        return None
    def chan_recv(fr, i, ch):
        got = take(E, ch)
        if got is None:
            if ch is not None and ch.closed:
                z = E.zero(E.types[i['xt']]['elem'])
                fr.regs[i['name']] = (z, False) if i.get('commaok') else z
                return None
            return ('block', ch)
        fr.regs[i['name']] = (got[0], True) if i.get('commaok') else got[0]
        return None
    E.chan_recv = chan_recv
    def do_select(fr, i):
        states = i['states']
        ready = []
        for k, st in enumerate(states):
            ch = E.val(fr, st['chan'])
            if st['dir'] == 2:      # recv
                if ch is not None and (ch.buf or getattr(ch, 'senders', []) or ch.closed): ready.append(k)
            else:
                raise Unsupported('select with a send case')
        if not ready:
            if not i['blocking']:
                fr.regs[i['name']] = tuple([(1 << 64) - 1, False] + [None for st in states if st['dir'] == 2])
                return None
            return ('block', None)
        k = ready[E.choose(len(ready))] if len(ready) > 1 else ready[0]
        ch = E.val(fr, states[k]['chan'])
        got = take(E, ch)
        vals = []
        for j, st in enumerate(states):
            if st['dir'] == 2: vals.append(got[0] if (j == k and got) else None)
        fr.regs[i['name']] = tuple([k, got is not None] + vals)
        return None
    E.do_select = do_select
    never = lambda e, a: ChanV(0)
    I['time.After'] = never
    I['time.Tick'] = never

    # fault injection: the flagged invoke returns (zero values..., error) without effect
    orig_step = E.step
    def step(fr, i, op):
        th = E.P.g.get('cur_thread')
        if op == 'Call' and i.get('sched') and th is not None and th.get('fault'):
            th['fault'] = False
            t = i['type']; d = E.types[t]
            err = mkerr('injected storage fault')
            if d['k'] == 'tuple':
                vals = [E.zero(x) for x in d['elems']]
                vals[-1] = err
                fr.regs[i['name']] = tuple(vals)
            else:
                fr.regs[i['name']] = err
            return None
        return orig_step(fr, i, op)
    E.step = step
    orig_run = E.run_frames
    def run_frames(stack, thread=None):
        prev = E.P.g.get('cur_thread')
        if thread is not None: E.P.g['cur_thread'] = thread
        try: return orig_run(stack, thread)
        finally: E.P.g['cur_thread'] = prev
    E.run_frames = run_frames
