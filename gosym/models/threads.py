# Threads, crash points and storage faults as decision variables (DESIGN.md 3.4).
# Scheduling points are the instructions flagged 'sched' by the driver (invoke on storage.MintDB /
# lightning.Client / storage.WalletDB); a thread runs from one scheduling point to the next atomically.
import z3
from ..sym import *
from ..core import *
from .std import mkerr

RT = 'github.com/elnosh/gonuts/verifrt.'

def install(E):
    I = E.intr
    def threads(e): return e.P.g.setdefault('threads', [])
    def vgo(e, a):
        fv = a[0]
        r = e.call_fn(fv, [])
        if r[0] != 'push': return None
        ts = threads(e)
        ts.append(dict(stack=[r[1]], done=False, resumed=False, at=None, id=len(ts), fault=False))
        return None
    I[RT + 'Go'] = vgo
    def record(e, base, val):
        lab = e.label(base); e.P.nondets[lab] = ('int', val)
    def vjoin(e, a):
        bound = e.conc(a[0])
        last = None; preempt = 0
        ts = threads(e)
        while True:
            live = [t for t in ts if not t['done']]
            if not live: break
            if last is not None and not last['done'] and preempt >= bound: opts = [last]
            else: opts = live
            t = opts[e.choose(len(opts))] if len(opts) > 1 else opts[0]
            if len(live) > 1: record(e, 'sched', t['id'])
            if last is not None and not last['done'] and t is not last: preempt += 1
            e.P.trace.append('T%d:%s' % (t['id'], t['at'] or 'start'))
            t['resumed'] = True
            r = e.run_frames(t['stack'], thread=t)
            if r != 'yield': t['done'] = True
            last = t
        e.P.g['threads'] = []
        return None
    I[RT + 'Join'] = vjoin
    I[RT + 'Yield'] = lambda e, a: False

    def crash_or_fault_run(e, a, mode):
        r = e.call_fn(a[0], [])
        if r[0] != 'push': return False
        t = dict(stack=[r[1]], done=False, resumed=False, at=None, id=0, fault=False)
        k = 0; hit = None
        while True:
            res = e.run_frames(t['stack'], thread=t)
            if res != 'yield': break
            # only storage calls can fail / every scheduling point can be a crash point
            can = mode == 'crash' or t['at'].startswith('MintDB.') or t['at'].startswith('WalletDB.')
            if can and hit is None and e.choose(2) == 1:
                hit = (k, t['at'])
                e.P.trace.append('%s-before#%d:%s' % (mode, k, t['at']))
                r0 = e.stats['reached']; lab = '%s-before-%s' % (mode, t['at']); r0[lab] = r0.get(lab, 0) + 1
                if mode == 'crash': break
                t['fault'] = True
            k += 1; t['resumed'] = True
        record(e, 'crashAt' if mode == 'crash' else 'faultAt', hit[0] if hit else -1)
        e.P.g['crash_at_name'] = hit[1] if hit else ''
        e.P.g.setdefault('hits', []).append(hit[1] if hit else '')
        return hit is not None
    I[RT + 'CrashRun'] = lambda e, a: crash_or_fault_run(e, a, 'crash')
    I[RT + 'FaultRun'] = lambda e, a: crash_or_fault_run(e, a, 'fault')
    # name of the call before which the last CrashRun / FaultRun struck ("" if it did not)
    I[RT + 'HitAt'] = lambda e, a: StrV(c=(e.P.g.get('crash_at_name') or ''))

    # fault injection: the flagged invoke returns (zero values..., error) without effect
    orig_step = E.step
    def step(fr, i, op):
        th = E.P.g.get('cur_thread')
        if op == 'Call' and i.get('sched') and th is not None and th.get('fault'):
            th['fault'] = False
            t = i['type']; d = E.types[t]
            err = mkerr('injected storage fault')
            if d['k'] == 'tuple':
                vals = [E.zero(x) for x in d['elems']]
                vals[-1] = err
                fr.regs[i['name']] = tuple(vals)
            else:
                fr.regs[i['name']] = err
            return None
        return orig_step(fr, i, op)
    E.step = step
    orig_run = E.run_frames
    def run_frames(stack, thread=None):
        prev = E.P.g.get('cur_thread')
        if thread is not None: E.P.g['cur_thread'] = thread
        try: return orig_run(stack, thread)
        finally: E.P.g['cur_thread'] = prev
    E.run_frames = run_frames
