# Environment of the wallet harnesses: the two lowest functions of wallet/client (get, httpPost) are redirected to the
# harness' fake mint (Go code executed symbolically), so the real client.go (JSON marshalling of every request, decoding
# of every response) is executed.  File system / bip39 prologue of Restore is summarised.
import z3
from ..sym import *
from ..core import *
from .std import mkerr, slist

M = 'github.com/elnosh/gonuts/'

def install(E):
    I = E.intr
    RESP = 'net/http.Response'
    def field_index(e, t, name):
        d = e.under(t)[1]
        for i, f in enumerate(d['fields']):
            if f['name'] == name: return i
        raise Unsupported('no field %s in %s' % (name, t))
    def mkresp(e, status, body):
        r = e.zero(RESP)
        r.f[field_index(e, RESP, 'StatusCode')] = status
        r.f[field_index(e, RESP, 'Body')] = IfaceV('verif.body', Ptr(Box(Opaque('buf', e.tobytes(body)))))
        return Ptr(Box(r))
    def do_http(e, method, url, body):
        log = e.P.g.setdefault('http_log', [])
        log.append((method, url, body))
        r = e.call(FuncV(M + 'wallet.vhHTTP'), [StrV(c=method), url, body])
        status, resp = r
        return mkresp(e, status, resp)
    def client_get(e, a):
        # the real parse() is executed on the response (status >= 400: error body decoded)
        return e.call(FuncV(M + 'wallet/client.parse'), [do_http(e, 'GET', a[0], None)])
    I[M + 'wallet/client.get'] = client_get
    def client_post(e, a):
        url, ct, rd = a
        body = None
        if rd is not None:
            v = rd.v if isinstance(rd, IfaceV) else rd
            body = BytesV(e.peek(v).val)
        resp = do_http(e, 'POST', url, body)
        # the real parse() is executed on the response
        return e.call(FuncV(M + 'wallet/client.parse'), [resp])
    I[M + 'wallet/client.httpPost'] = client_post
    I['io.ReadAll'] = lambda e, a: (BytesV(e.peek(a[0].v).val), None)
    I['method:verif.body.Close'] = lambda e, a: None
    I['method:verif.body.Read'] = lambda e, a: (_ for _ in ()).throw(Unsupported('Read on response body'))
    I['encoding/json.NewDecoder'] = lambda e, a: Ptr(Box(Opaque('jsondec', a[0])))
    def dec_decode(e, a):
        rd = e.peek(a[0]).val
        data = BytesV(e.peek(rd.v).val)
        return e.intr['encoding/json.Unmarshal'](e, [data, a[1]])
    I['(*encoding/json.Decoder).Decode'] = dec_decode
    I['bytes.NewBuffer'] = lambda e, a: Ptr(Box(Opaque('buf', e.tobytes(a[0]))))
    # crypto.PublicKeys.MarshalJSON writes JSON text by hand into a buffer: summarised by the tree it denotes
    def pk_marshal(e, a):
        m = a[0]
        items = []
        for k, v in (m.ents if m is not None else []):
            c = e.conc(k)
            key = StrV(c=str(c)) if c is not None else StrV(t=utoa(k))
            pt = e.peek(v).val
            sp = serpt(pt); e.ax(('ser', sp.get_id()), slen(sp) == 33, parsept(sp) == pt, validpt(sp))
            items.append((key, ('str', e.hexenc(StrV(t=sp)))))
        k = e.P.g['jsoncnt'] = e.P.g.get('jsoncnt', 0) + 1
        s = e.newstr('json_pks%d' % k)
        e.json_attach(e, s, ('obj', items))
        return (BytesV(s), None)
    I['(%scrypto.PublicKeys).MarshalJSON' % M] = pk_marshal
    # Restore prologue
    I['os.Stat'] = lambda e, a: (None, mkerr('stat: no such file or directory'))
    I['os.MkdirAll'] = lambda e, a: None
    I['path/filepath.Join'] = lambda e, a: StrV(c='/'.join(x.c for x in slist(a[0])))
    I['github.com/tyler-smith/go-bip39.IsMnemonicValid'] = lambda e, a: True
    def newseed(e, a):
        t = z3.Function('bip39seed', Str, Str)(e.sterm(a[0]))
        e.ax(('b39', t.get_id()), slen(t) == 64)
        return BytesV(StrV(t=t))
    I['github.com/tyler-smith/go-bip39.NewSeed'] = newseed
    I[M + 'wallet.InitStorage'] = lambda e, a: (e.call(FuncV(M + 'wallet.vhRestoreDB'), [a[0]]), None)
    I['net/url.Parse'] = lambda e, a: (Ptr(Box(Opaque('url', a[0]))), None)
    I['(*net/url.URL).String'] = lambda e, a: e.peek(a[0]).val
