# Turning a solver model into a concrete "script": label -> value for every nondeterministic
# value the harness (and the environment models) drew on this path.  The same labels are read by
# the native variant of the harness runtime (harness/rt/rt_native.go) when the counterexample is
# replayed against the real build (DESIGN.md section 5, "Replay").
import z3
from .sym import *
from .core import StrV, Unsupported

RAW_ALPHABET = "~!@$^&*|;?<>`"

class Realizer:
    def __init__(self, E, m):
        self.E = E; self.m = m; self.cache = {}; self.rawcnt = {}; self.notes = []
        self.litvals = {}
        for s in E.P.lits:
            lt = E.lit_tab[s][0]
            self.litvals[str(m.eval(lt, model_completion=True))] = s
    def ev(self, t): return self.m.eval(t, model_completion=True)
    def intval(self, t):
        v = self.ev(t)
        if z3.is_int_value(v): return v.as_long()
        if z3.is_bv_value(v): return v.as_long()
        raise Unsupported('non-numeric model value %s' % v)
    def raw(self, key, L):
        if L > 1 << 20: raise Unsupported('model string length %d too large to realise' % L)
        if L == 0: return ''
        k = self.rawcnt.get(L, 0); self.rawcnt[L] = k + 1
        digs = []
        b = len(RAW_ALPHABET)
        x = k
        while True:
            digs.append(RAW_ALPHABET[x % b]); x //= b
            if x == 0: break
        if len(digs) > L: raise Unsupported('cannot build %d distinct strings of length %d' % (k + 1, L))
        return (RAW_ALPHABET[0] * (L - len(digs))) + ''.join(reversed(digs))
    def str_node(self, term):
        """realisation AST of a string-sorted term"""
        ev = self.ev(term); key = str(ev)
        if key in self.litvals: return {'lit': self.litvals[key].encode('latin-1').hex()}
        if key in self.cache: return self.cache[key]
        node = None
        jt = self.E.P.g.get('jtree', {}).get(term.get_id())
        if jt is not None:
            node = {jt[0]: self.tree_node(jt[1])}
            self.cache[key] = node
            return node
        decs = self.E.P.g.get('dec', {}).get(term.get_id(), [])
        for kind, res, valid in decs:
            ok = valid is True or z3.is_true(self.ev(valid))
            if not ok: continue
            if kind == 'hex': node = {'hexenc': self.str_node(res)}
            elif kind == 'b64': node = {'b64': self.str_node(res)}
            elif kind == 'b64raw': node = {'b64raw': self.str_node(res)}
            elif kind == 'pt': node = {'pt': str(self.intval(res))}
            elif kind == 'sig': node = {'raw': self.raw(key, 64).encode('latin-1').hex()}
            if node: break
        if node is None:
            # structural terms the engine built itself
            if z3.is_app(term):
                n = term.decl().name()
                if n == 'hexenc': node = {'hexenc': self.str_node(term.arg(0))}
                elif n == 'serpt':
                    pt = term.arg(0)
                    if z3.is_app(pt) and pt.decl().name() == 'h2c': node = {'h2c': self.str_node(pt.arg(0))}
                    else: node = {'pt': str(self.intval(pt))}
                elif n == 'serk': node = {'scalar': str(self.intval(term.arg(0)))}
                elif n == 'sconcat': node = {'cat': [self.str_node(term.arg(0)), self.str_node(term.arg(1))]}
                elif n == 'schnorr_sig':
                    node = {'sig': {'priv': str(self.intval(term.arg(0))), 'hash': self.str_node(term.arg(1)), 'aux': str(self.intval(term.arg(2)))}}
                elif n == 'sha256': node = {'sha256': self.str_node(term.arg(0))}
                elif n == 'if':
                    node = self.str_node(term.arg(1) if z3.is_true(self.ev(term.arg(0))) else term.arg(2))
        if node is None and key in self.structured() and not self.structured()[key].eq(term):
            node = self.str_node(self.structured()[key])      # a free string the model makes equal to a derived one
        if node is None:
            node = self.tiled(term)
        if node is None:
            L = self.intval(slen(term))
            s = self.sub_overlay(term, self.raw(key, L))
            node = {'raw': s.encode('latin-1').hex()}
        self.cache[key] = node
        return node
    def structured(self):
        """model value -> derived term (registered by the models: strings a native run computes from other labels)"""
        if getattr(self, '_structured', None) is None:
            self._structured = {}
            for t in self.E.P.g.get('derived_strs', []):
                self._structured.setdefault(str(self.ev(t)), t)
        return self._structured
    def tiled(self, term):
        """a string whose known substrings tile it completely: realise as their concatenation"""
        subs = self.E.P.g.get('subs', {}).get(term.get_id(), [])
        if not subs: return None
        n = self.intval(slen(term))
        segs = sorted(((self.intval(lo), self.intval(hi), sub) for lo, hi, sub in subs), key=lambda x: (x[0], -x[1]))
        pos = 0; parts = []
        for l, h, sub in segs:
            if l < pos: continue
            if l != pos: return None
            parts.append(self.str_node(sub)); pos = h
        if pos != n: return None
        return {'cat': parts}
    def tree_node(self, tr):
        k = tr[0]
        if k == 'obj': return {'o': [[self.key_node(kk), self.tree_node(v)] for kk, v in tr[1]]}
        if k == 'arr': return {'a': [self.tree_node(v) for v in tr[1]]}
        if k == 'str': return {'s': self.sv_node(tr[1])}
        if k == 'bytes': return {'y': self.sv_node(tr[1])}
        if k == 'raw': return {'r': self.sv_node(tr[1])}
        if k == 'bool': return {'b': tr[1] if isinstance(tr[1], bool) else bool(z3.is_true(self.ev(tr[1])))}
        if k == 'null': return {'z': 1}
        if k == 'num':
            v, bits, signed = tr[1], tr[2], tr[3]
            if isinstance(v, float): return {'n': repr(v)}
            x = v if isinstance(v, int) else self.intval(v)
            if signed and bits and x >> (bits - 1): x -= 1 << bits
            return {'n': str(x)}
        raise Unsupported('tree node ' + k)
    def key_node(self, k):
        if isinstance(k, str): return {'lit': k.encode('latin-1').hex()}
        return self.sv_node(k)
    def sv_node(self, s):
        if s.c is not None: return {'lit': s.c.encode('latin-1').hex()}
        return self.str_node(s.t)
    def sub_overlay(self, term, s):
        """honour substring facts ssub(term, lo, hi) == literal recorded on this path"""
        for (lo, hi, sub) in self.E.P.g.get('subs', {}).get(term.get_id(), []):
            l, h = self.intval(lo), self.intval(hi)
            k = str(self.ev(sub))
            if k in self.litvals and h - l == len(self.litvals[k]) and h <= len(s):
                s = s[:l] + self.litvals[k] + s[h:]
        return s

def realize(E, m):
    R = Realizer(E, m)
    out = {}
    for label, (kind, term) in E.P.nondets.items():
        try:
            if kind == 'int': out[label] = term
            elif kind in ('u64', 'i64', 'u32'): out[label] = str(R.intval(term)) if not isinstance(term, int) else str(term)
            elif kind == 'bool': out[label] = bool(z3.is_true(R.ev(term))) if not isinstance(term, bool) else term
            elif kind == 'str': out[label] = R.str_node(term) if not isinstance(term, str) else {'lit': term.encode('latin-1').hex()}
            elif kind == 'priv': out[label] = str(R.intval(term))
            else: out[label] = str(R.ev(term))
        except Unsupported as e:
            out[label] = {'unrealisable': str(e)}
    for name, apps in E.P.g.get('uf', {}).items():
        out['uf.' + name] = [[str(R.intval(x)), str(R.intval(r))] for x, r in apps]
    return out
