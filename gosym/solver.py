import os
# Path solver with constraint-independence slicing.  z3's incremental (push/pop) mode is ~100x
# slower than the tactic pipeline on the adder-chain equivalences the arithmetic properties produce
# (measured), so every query is solved non-incrementally on the connected component of the path
# condition that shares symbols with it; pure bit-vector components go to the qfbv tactic.
import time
import z3

from z3 import z3core as _c
_ctx = z3.main_ctx().ref()
_cache = {}        # ast id -> frozenset of symbol names ('@uf' marks non-BV theories); roots are kept alive in _keep
_keep = []
_INT_SORT, _REAL_SORT, _BV_SORT, _BOOL_SORT = _c.Z3_INT_SORT, _c.Z3_REAL_SORT, _c.Z3_BV_SORT, _c.Z3_BOOL_SORT

def symset(t):
    """names of the uninterpreted constants / functions occurring in t (memoised on every sub-term, raw C API)"""
    root = t.as_ast()
    rid = _c.Z3_get_ast_id(_ctx, root)
    r = _cache.get(rid)
    if r is not None: return r
    _keep.append(t)
    stack = [(root, rid, False)]
    while stack:
        a, aid, done = stack.pop()
        if aid in _cache: continue
        kind = _c.Z3_get_ast_kind(_ctx, a)
        if kind == _c.Z3_APP_AST:
            app = _c.Z3_to_app(_ctx, a)
            n = _c.Z3_get_app_num_args(_ctx, app)
            kids = [_c.Z3_get_app_arg(_ctx, app, i) for i in range(n)]
            kid_ids = [_c.Z3_get_ast_id(_ctx, k) for k in kids]
            if not done:
                missing = [(k, i, False) for k, i in zip(kids, kid_ids) if i not in _cache]
                if missing:
                    stack.append((a, aid, True)); stack.extend(missing); continue
            out = set()
            for i in kid_ids: out |= _cache[i]
            d = _c.Z3_get_app_decl(_ctx, app)
            sk = _c.Z3_get_sort_kind(_ctx, _c.Z3_get_sort(_ctx, a))
            if _c.Z3_get_decl_kind(_ctx, d) == _c.Z3_OP_UNINTERPRETED:
                out.add(_c.Z3_get_symbol_string(_ctx, _c.Z3_get_decl_name(_ctx, d)) if _c.Z3_get_symbol_kind(_ctx, _c.Z3_get_decl_name(_ctx, d)) == _c.Z3_STRING_SYMBOL
                        else 'k!%d' % _c.Z3_get_symbol_int(_ctx, _c.Z3_get_decl_name(_ctx, d)))
                if n > 0 or sk not in (_BV_SORT, _BOOL_SORT): out.add('@uf')
            elif sk in (_INT_SORT, _REAL_SORT): out.add('@uf')
            _cache[aid] = frozenset(out)
        elif kind == _c.Z3_NUMERAL_AST:
            sk = _c.Z3_get_sort_kind(_ctx, _c.Z3_get_sort(_ctx, a))
            _cache[aid] = frozenset(('@uf',)) if sk in (_INT_SORT, _REAL_SORT) else frozenset()
        else:
            _cache[aid] = frozenset(('@uf',))
    return _cache[rid]

class MultiModel:
    def __init__(self, models): self.models = models
    def eval(self, t, model_completion=True):
        r = t
        for m in self.models:
            r = m.eval(r, model_completion=False)
        return self.models[-1].eval(r, model_completion=True) if self.models else z3.simplify(r)

# ---- second opinions (thorough tier): every XSOLVER-th decided query is written as SMT-LIB2 and given to z3 4.8.12 (the system
# z3, a different code base age than the 5.1.0 API) and cvc5; a definite answer that differs is recorded and makes the check
# INCONCLUSIVE. Time-outs / unknown / errors of the second solvers are counted but decide nothing.
XSOLVER = int(os.environ.get('VERIF_XSOLVER', '0') or 0)
XSTATS = dict(sampled=0, agree=0, other_unknown=0, disagree=[])
_xcount = [0]
def cross_check(s, r):
    import subprocess, tempfile
    _xcount[0] += 1
    if _xcount[0] % XSOLVER: return
    XSTATS['sampled'] += 1
    mine = 'sat' if r == z3.sat else 'unsat'
    with tempfile.NamedTemporaryFile('w', suffix='.smt2', delete=False) as f:
        f.write(s.to_smt2()); path = f.name
    try:
        for cmd in (['/usr/bin/z3', '-T:20', path], ['cvc5', '--tlimit=20000', path]):
            try:
                out = subprocess.run(cmd, capture_output=True, text=True, timeout=40).stdout
            except Exception:
                XSTATS['other_unknown'] += 1; continue
            if '(error' in out: XSTATS['other_unknown'] += 1; continue
            ans = out.strip().split('\n')[0].strip() if out.strip() else ''
            if ans not in ('sat', 'unsat'): XSTATS['other_unknown'] += 1
            elif ans == mine: XSTATS['agree'] += 1
            else:
                keep = path + '.disagree'
                try: os.replace(path, keep); path = keep
                except OSError: pass
                XSTATS['disagree'].append(dict(solver=cmd[0], theirs=ans, ours=mine, query=path))
    finally:
        if not path.endswith('.disagree'):
            try: os.unlink(path)
            except OSError: pass

class PathSolver:
    def __init__(self, timeout_ms=30000):
        self.asserts = []      # (formula, frozenset(symbols))
        self.parent = {}
        self.timeout_ms = timeout_ms
        self.false = False
        self.inc = None            # incremental solver, only used on paths with very many (EUF-heavy) assertions
        self.inc_fed = 0
        self.inc_fail = 0
    def set(self, *a, **k): pass
    def find(self, x):
        p = self.parent
        while p.setdefault(x, x) != x:
            p[x] = p[p[x]]; x = p[x]
        return x
    def union(self, syms):
        it = iter(syms)
        try: r = self.find(next(it))
        except StopIteration: return
        for s in it:
            q = self.find(s)
            if q != r: self.parent[q] = r
    def add(self, *fs):
        for f in fs:
            if isinstance(f, (list, tuple)):
                self.add(*f); continue
            if f is True: continue
            if f is False: self.false = True; continue
            if z3.is_true(f): continue
            if z3.is_and(f):
                self.add(*f.children()); continue
            ss = symset(f)
            self.asserts.append((f, ss))
            self.union(s for s in ss if s != '@uf')
    def assertions(self): return [f for f, _ in self.asserts]
    def component(self, roots):
        comp = []; uf = False
        for f, ss in self.asserts:
            for s in ss:
                if s != '@uf' and self.find(s) in roots:
                    comp.append(f); uf |= '@uf' in ss; break
        return comp, uf
    def solve(self, fs, uf):
        s = z3.Solver() if uf else z3.Tactic('qfbv').solver()
        s.set('timeout', self.timeout_ms)
        s.add(fs)
        r = s.check()
        if XSOLVER and r != z3.unknown: cross_check(s, r)
        return r, (s.model() if r == z3.sat else None), (s.reason_unknown() if r == z3.unknown else '')
    INC_THRESHOLD = 400
    def try_incremental(self, extra, need_model=True):
        """paths with thousands of uninterpreted-function axioms (restore: 100 derivations per batch): re-asserting all of
        them for every query costs ~1 s each, so keep one incremental solver for the path; it is only trusted for a short
        time limit (bit-vector arithmetic is slow in incremental mode) and abandoned after two timeouts"""
        if len(self.asserts) < self.INC_THRESHOLD or self.inc_fail >= 2 or os.environ.get('VERIF_NO_INC'): return None
        if self.inc is None:
            self.inc = z3.Solver(); self.inc_fed = 0
        while self.inc_fed < len(self.asserts):
            self.inc.add(self.asserts[self.inc_fed][0]); self.inc_fed += 1
        self.inc.set('timeout', 3000)
        self.inc.push()
        self.inc.add(extra)
        r = self.inc.check()
        m = self.inc.model() if (r == z3.sat and need_model) else None
        self.inc.pop()
        if r == z3.unknown:
            self.inc_fail += 1; return None
        return r, (MultiModel([m]) if m is not None else None), ''
    def check(self, extra=None, need_model=True):
        """satisfiability of the path condition together with extra (sliced); returns (result, model, reason)"""
        if self.false: return z3.unsat, None, ''
        if extra is None:
            return z3.sat, None, ''       # the path condition is kept feasible by construction
        r = self.try_incremental(extra, need_model)
        if r is not None: return r
        ss = symset(extra)
        uf = '@uf' in ss
        roots = {self.find(s) for s in ss if s != '@uf'}
        comp, uf2 = self.component(roots)
        if uf2 and not uf:
            # relaxation first: drop every assertion that mentions uninterpreted functions / non-BV theories; if the
            # pure bit-vector part is already unsatisfiable with the query, so is the whole (sound), and the bit-blasting
            # tactic decides that ~100x faster than the SMT core
            bvonly = [f for f in comp if '@uf' not in symset(f)]
            if bvonly:
                r, m, why = self.solve(bvonly + [extra], False)
                if r == z3.unsat: return r, None, ''
        return self.solve(comp + [extra], uf or uf2)
    def full_model(self, extra=None):
        """models of every component (for counterexample extraction)"""
        if extra is not None:
            r = self.try_incremental(extra)
            if r is not None: return r
        groups = {}
        ufs = {}
        loose = []
        for f, ss in self.asserts:
            key = None
            for s in ss:
                if s != '@uf': key = self.find(s); break
            if key is None: loose.append(f); continue
            groups.setdefault(key, []).append(f); ufs[key] = ufs.get(key, False) or '@uf' in ss
        models = []
        if extra is not None:
            ss = symset(extra)
            roots = {self.find(s) for s in ss if s != '@uf'}
            fs = [extra]; uf = '@uf' in ss
            for r in roots:
                fs += groups.pop(r, []); uf |= ufs.get(r, False)
            r, m, why = self.solve(fs, uf)
            if r != z3.sat: return r, None, why
            models.append(m)
        for key, fs in groups.items():
            r, m, why = self.solve(fs, ufs[key])
            if r != z3.sat: return r, None, why
            models.append(m)
        return z3.sat, MultiModel(models), ''
