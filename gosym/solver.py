# Path solver with constraint-independence slicing.  z3's incremental (push/pop) mode is ~100x
# slower than the tactic pipeline on the adder-chain equivalences the arithmetic properties produce
# (measured), so every query is solved non-incrementally on the connected component of the path
# condition that shares symbols with it; pure bit-vector components go to the qfbv tactic.
import time
import z3

def symset(t, out=None, seen=None):
    """names of the uninterpreted constants / functions occurring in t, and whether non-BV theories occur"""
    if out is None: out = set()
    if seen is None: seen = set()
    stack = [t]
    while stack:
        x = stack.pop()
        i = x.get_id()
        if i in seen: continue
        seen.add(i)
        if z3.is_app(x):
            d = x.decl()
            if d.kind() == z3.Z3_OP_UNINTERPRETED:
                out.add(d.name())
                if x.num_args() > 0 or not z3.is_bv(x) and not z3.is_bool(x): out.add('@uf')
            elif z3.is_int(x) or z3.is_real(x):
                out.add('@uf')
            for k in range(x.num_args()): stack.append(x.arg(k))
        elif z3.is_quantifier(x):
            out.add('@uf'); stack.append(x.body())
    return out

class MultiModel:
    def __init__(self, models): self.models = models
    def eval(self, t, model_completion=True):
        r = t
        for m in self.models:
            r = m.eval(r, model_completion=False)
        return self.models[-1].eval(r, model_completion=True) if self.models else z3.simplify(r)

class PathSolver:
    def __init__(self, timeout_ms=30000):
        self.asserts = []      # (formula, frozenset(symbols))
        self.parent = {}
        self.timeout_ms = timeout_ms
        self.false = False
    def set(self, *a, **k): pass
    def find(self, x):
        p = self.parent
        while p.setdefault(x, x) != x:
            p[x] = p[p[x]]; x = p[x]
        return x
    def union(self, syms):
        it = iter(syms)
        try: r = self.find(next(it))
        except StopIteration: return
        for s in it:
            q = self.find(s)
            if q != r: self.parent[q] = r
    def add(self, *fs):
        for f in fs:
            if isinstance(f, (list, tuple)):
                self.add(*f); continue
            if f is True: continue
            if f is False: self.false = True; continue
            if z3.is_true(f): continue
            if z3.is_and(f):
                self.add(*f.children()); continue
            ss = symset(f) - {'@uf'} | ({'@uf'} if '@uf' in symset(f) else set())
            self.asserts.append((f, frozenset(ss)))
            self.union(s for s in ss if s != '@uf')
    def assertions(self): return [f for f, _ in self.asserts]
    def component(self, roots):
        comp = []; uf = False
        for f, ss in self.asserts:
            for s in ss:
                if s != '@uf' and self.find(s) in roots:
                    comp.append(f); uf |= '@uf' in ss; break
        return comp, uf
    def solve(self, fs, uf):
        s = z3.Solver() if uf else z3.Tactic('qfbv').solver()
        s.set('timeout', self.timeout_ms)
        s.add(fs)
        r = s.check()
        return r, (s.model() if r == z3.sat else None), (s.reason_unknown() if r == z3.unknown else '')
    def check(self, extra=None):
        """satisfiability of the path condition together with extra (sliced); returns (result, model, reason)"""
        if self.false: return z3.unsat, None, ''
        if extra is None:
            return z3.sat, None, ''       # the path condition is kept feasible by construction
        ss = symset(extra)
        uf = '@uf' in ss
        roots = {self.find(s) for s in ss if s != '@uf'}
        comp, uf2 = self.component(roots)
        return self.solve(comp + [extra], uf or uf2)
    def full_model(self, extra=None):
        """models of every component (for counterexample extraction)"""
        groups = {}
        ufs = {}
        loose = []
        for f, ss in self.asserts:
            key = None
            for s in ss:
                if s != '@uf': key = self.find(s); break
            if key is None: loose.append(f); continue
            groups.setdefault(key, []).append(f); ufs[key] = ufs.get(key, False) or '@uf' in ss
        models = []
        if extra is not None:
            ss = symset(extra)
            roots = {self.find(s) for s in ss if s != '@uf'}
            fs = [extra]; uf = '@uf' in ss
            for r in roots:
                fs += groups.pop(r, []); uf |= ufs.get(r, False)
            r, m, why = self.solve(fs, uf)
            if r != z3.sat: return r, None, why
            models.append(m)
        for key, fs in groups.items():
            r, m, why = self.solve(fs, ufs[key])
            if r != z3.sat: return r, None, why
            models.append(m)
        return z3.sat, MultiModel(models), ''
