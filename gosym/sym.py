# Symbolic vocabulary shared by the engine and the models: the uninterpreted string sort and
# the function symbols whose axioms are instantiated "by construction" (see DESIGN.md 4.1).
import z3

Str = z3.DeclareSort('Str')
BV64 = z3.BitVecSort(64)
BV8 = z3.BitVecSort(8)
IntS = z3.IntSort()
BoolS = z3.BoolSort()

slen = z3.Function('slen', Str, BV64)
litid = z3.Function('litid', Str, IntS)          # literals get distinct ids => pairwise distinct
sconcat = z3.Function('sconcat', Str, Str, Str)
ssub = z3.Function('ssub', Str, BV64, BV64, Str)
sbyte = z3.Function('sbyte', Str, BV64, BV8)     # byte at index
bstr = z3.Function('bstr', BV8, Str)             # 1-byte string
hexenc = z3.Function('hexenc', Str, Str)
hexdec = z3.Function('hexdec', Str, Str)
validhex = z3.Function('validhex', Str, BoolS)
b64enc = z3.Function('b64enc', Str, Str)         # URLEncoding (padded)
b64dec = z3.Function('b64dec', Str, Str)
validb64 = z3.Function('validb64', Str, BoolS)
b64rawenc = z3.Function('b64rawenc', Str, Str)   # RawURLEncoding
b64rawdec = z3.Function('b64rawdec', Str, Str)
validb64raw = z3.Function('validb64raw', Str, BoolS)
sha256 = z3.Function('sha256', Str, Str)
itoa = z3.Function('itoa', BV64, Str)            # decimal text of a signed 64-bit integer
utoa = z3.Function('utoa', BV64, Str)            # decimal text of an unsigned 64-bit integer
tolower = z3.Function('tolower', Str, Str)
fmtstr = z3.Function('fmtstr', IntS, Str)        # opaque formatted strings (Sprintf/Errorf), indexed

# --- secp256k1 algebraic model (DESIGN.md 4.2): points are represented by their discrete log
serpt = z3.Function('serpt', IntS, Str)          # compressed serialisation of the point k*G
serptU = z3.Function('serptU', IntS, Str)        # uncompressed
parsept = z3.Function('parsept', Str, IntS)
validpt = z3.Function('validpt', Str, BoolS)
serk = z3.Function('serk', IntS, Str)            # 32-byte big-endian scalar
b2s = z3.Function('b2s', Str, IntS)              # PrivKeyFromBytes: bytes -> scalar (mod n)
h2c = z3.Function('h2c', Str, IntS)              # discrete log of hash_to_curve(msg)
liftx = z3.Function('liftx', Str, IntS)          # discrete log of the point parsed from 02||x
validx = z3.Function('validx', Str, BoolS)       # 02||x is a curve point

# --- Schnorr (BIP-340) as a term algebra
schnorr_sig = z3.Function('schnorr_sig', IntS, Str, IntS, Str)   # sign(priv, hash, aux-nonce id) -> 64 byte sig
sigvalid = z3.Function('sigvalid', Str, Str, IntS, BoolS)        # (sig bytes, hash, pubkey dlog) for opaque sigs
validsig = z3.Function('validsig', Str, BoolS)                   # parses as a signature

# --- BIP-32 (uninterpreted, deterministic)
hd_master = z3.Function('hd_master', Str, IntS)                  # seed bytes -> extended key id
hd_derive = z3.Function('hd_derive', IntS, z3.BitVecSort(32), IntS)
hd_priv = z3.Function('hd_priv', IntS, IntS)                     # extended key -> private scalar

def is_app_of(t, name):
    return z3.is_app(t) and t.decl().name() == name
