package nut10

import (
	"encoding/json"
	"fmt"

	v "github.com/elnosh/gonuts/verifrt"
)

// Conformance of the NUT-10 (de)serialiser with what the other harnesses assume about it (they replace it by an
// injective constructor, DESIGN.md 4.6): every JSON text of the shape ["<kind>", {"nonce":..,"data":..,"tags":[[..]..]}]
// deserialises to exactly its fields, whatever the strings are - in particular a malformed lock value is still a NUT-10
// secret of its kind (and is then refused by the NUT-11 / NUT-14 checks, not waved through as a plain secret).
func VHarnessNut10Deserialize() {
	kind := v.PickStr(v.U64("kind"), "P2PK", "HTLC", "SOMETHING")
	nTags := v.Int("nTags", 0, 2)
	tags := make([][]string, nTags)
	for i := range tags {
		n := v.Int(fmt.Sprintf("tag%d.len", i), 0, 2)
		tags[i] = make([]string, n)
		for j := range tags[i] {
			tags[i][j] = v.Str(fmt.Sprintf("tag%d.%d", i, j))
		}
	}
	data := SecretData{Nonce: v.Str("nonce"), Data: v.Str("data"), Tags: tags}
	text, err := json.Marshal([]any{kind, data})
	v.Assume(err == nil)
	got, derr := DeserializeSecret(string(text))
	v.Assert(derr == nil, "C12/C13 a JSON text of the NUT-10 shape deserialises, whatever its strings are")
	if derr != nil {
		v.Reach("refused")
		return
	}
	v.Reach("deserialised")
	want := AnyoneCanSpend
	if kind == "P2PK" {
		want = P2PK
	} else if kind == "HTLC" {
		want = HTLC
	}
	v.Assert(got.Kind == want, "C12/C13 the kind of a deserialised secret is the one its text names")
	v.Assert(v.And(got.Data.Nonce == data.Nonce, got.Data.Data == data.Data), "C12/C13 nonce and data of a deserialised secret are those of its text")
	v.Assert(len(got.Data.Tags) == nTags, "C12/C13 a deserialised secret has the tags of its text")
	if len(got.Data.Tags) == nTags {
		for i := range tags {
			same := len(got.Data.Tags[i]) == len(tags[i])
			if same {
				for j := range tags[i] {
					same = v.And(same, got.Data.Tags[i][j] == tags[i][j])
				}
			}
			v.Assert(same, "C12/C13 every tag of a deserialised secret equals the tag of its text")
		}
	}
}

// arbitrary text never makes the deserialiser panic
func VHarnessNut10Any() {
	_, err := DeserializeSecret(v.Str("text"))
	if err != nil {
		v.Reach("rejected")
	} else {
		v.Reach("accepted")
	}
}
