package nut11

import (
	"crypto/sha256"
	"encoding/hex"
	"encoding/json"
	"fmt"
	"strconv"
	"time"

	"github.com/btcsuite/btcd/btcec/v2"
	"github.com/elnosh/gonuts/cashu"
	"github.com/elnosh/gonuts/cashu/nuts/nut10"
	v "github.com/elnosh/gonuts/verifrt"
)

// VhLock is a symbolic NUT-11 lock configuration together with the private keys behind it (exported so that the
// NUT-14 and mint harnesses can reuse it).
type VhLock struct {
	Data     *btcec.PrivateKey
	Pubs     []*btcec.PrivateKey
	Refund   []*btcec.PrivateKey
	Foreign  *btcec.PrivateKey
	NSigs    int
	Locktime int64
	Expired  bool
	Sigflag  string
	Tags     [][]string
}

func vhPub(k *btcec.PrivateKey) *btcec.PublicKey { return k.PubKey() }

// VhNewLock draws a lock: n_sigs 0..maxN, 0..maxPub co-signer keys, 0..maxRef refund keys, locktime absent / past / future,
// sigflag absent / SIG_INPUTS / SIG_ALL; all keys pairwise distinct (a lock naming a key twice is outside the claim).
func VhNewLock(tag string, maxN, maxPub, maxRef int, now int64) *VhLock {
	l := &VhLock{Data: v.Priv(tag + ".data"), Foreign: v.Priv(tag + ".foreign")}
	all := []*btcec.PrivateKey{l.Data, l.Foreign}
	nPub := v.Int(tag+".nPub", 0, maxPub)
	for i := 0; i < nPub; i++ {
		k := v.Priv(fmt.Sprintf("%s.pub%d", tag, i))
		l.Pubs = append(l.Pubs, k)
		all = append(all, k)
	}
	nRef := v.Int(tag+".nRefund", 0, maxRef)
	for i := 0; i < nRef; i++ {
		k := v.Priv(fmt.Sprintf("%s.refund%d", tag, i))
		l.Refund = append(l.Refund, k)
		all = append(all, k)
	}
	for i := range all {
		for j := 0; j < i; j++ {
			v.Assume(v.Not(v.SamePriv(all[i], all[j])))
		}
	}
	ns := v.I64(tag + ".nsigs") // symbolic
	v.Assume(ns >= 0 && ns <= int64(maxN))
	l.NSigs = int(ns)
	switch v.Int(tag+".lockkind", 0, 2) {
	case 1: // in the future (by at least 10 s, so that the replay on the real clock agrees)
		d := v.I64(tag + ".lockdelta")
		v.Assume(d >= 10 && d < 1<<40)
		l.Locktime = now + d
	case 2: // in the past
		d := v.I64(tag + ".lockdelta")
		v.Assume(d >= 10 && d < 1<<29)
		l.Locktime = now - d
		l.Expired = true
	}
	l.Sigflag = v.PickStr(v.U64(tag+".sigflag"), "", SIGINPUTS, SIGALL)
	tags := P2PKTags{Sigflag: l.Sigflag, NSigs: l.NSigs, Locktime: l.Locktime}
	for _, k := range l.Pubs {
		tags.Pubkeys = append(tags.Pubkeys, vhPub(k))
	}
	for _, k := range l.Refund {
		tags.Refund = append(tags.Refund, vhPub(k))
	}
	l.Tags = SerializeP2PKTags(tags)
	return l
}

// VhSig describes how one witness signature was made (constructive: the oracle knows who signed what)
type VhSig struct {
	Text     string
	Signer   *btcec.PrivateKey // nil: not a signature at all
	RightMsg bool
}

// signers a witness signature can come from: data key, co-signers, refund keys, a foreign key
func (l *VhLock) signers() []*btcec.PrivateKey {
	s := []*btcec.PrivateKey{l.Data, l.Foreign}
	s = append(s, l.Pubs...)
	s = append(s, l.Refund...)
	return s
}

// VhWitnessSigs draws 0..maxS signatures: garbage, or a BIP-340 signature by any of the lock's keys or a foreign key,
// over the right or a wrong message, with one of two nonces (two different valid signatures of one key exist).
func (l *VhLock) VhWitnessSigs(tag string, maxS int, msg []byte) []VhSig {
	n := v.Int(tag+".nSigs", 0, maxS)
	out := make([]VhSig, n)
	right := sha256.Sum256(msg)
	wrong := sha256.Sum256(append([]byte("other:"), msg...))
	for i := range out {
		if v.Int(fmt.Sprintf("%s.sig%d.kind", tag, i), 0, 1) == 0 {
			out[i] = VhSig{Text: v.Str(fmt.Sprintf("%s.sig%d.garbage", tag, i))}
			continue
		}
		// signer, message and nonce are symbolic selections (no forking)
		signer := v.PickPriv(v.U64(fmt.Sprintf("%s.sig%d.signer", tag, i)), l.signers()...)
		aux := v.U64(fmt.Sprintf("%s.sig%d.nonce", tag, i))
		v.Assume(aux <= 1)
		m := v.U64(fmt.Sprintf("%s.sig%d.msg", tag, i))
		v.Assume(m <= 1)
		sig := v.SchnorrSign(signer, v.PickBytes(m, right[:], wrong[:]), aux)
		out[i] = VhSig{Text: hex.EncodeToString(sig.Serialize()), Signer: signer, RightMsg: m == 0}
	}
	return out
}

func vhTexts(s []VhSig) []string {
	t := make([]string, len(s))
	for i := range s {
		t[i] = s[i].Text
	}
	return t
}

// VhDistinctSigners counts the keys of `keys` for which some witness signature is valid (unbounded integer)
func VhDistinctSigners(sigs []VhSig, keys []*btcec.PrivateKey) v.Z {
	cnt := v.ZU(0)
	for _, k := range keys {
		has := false
		for _, s := range sigs {
			if s.Signer != nil && s.RightMsg {
				has = v.Or(has, v.SamePriv(s.Signer, k))
			}
		}
		cnt = v.ZAdd(cnt, v.ZIte(has, v.ZU(1), v.ZU(0)))
	}
	return cnt
}

// VhREQ is the reference predicate of NUT-11: after the locktime only the refund rule applies; before it at least
// max(n_sigs,1) DISTINCT authorised keys (data key, plus the co-signers when n_sigs > 0) have a valid signature.
func (l *VhLock) VhREQ(sigs []VhSig) bool {
	if l.Expired {
		if len(l.Refund) == 0 {
			return true
		}
		return v.Not(v.ZEq(VhDistinctSigners(sigs, l.Refund), v.ZU(0)))
	}
	keys := []*btcec.PrivateKey{l.Data}
	required := uint64(1)
	if l.NSigs > 0 {
		required = uint64(l.NSigs)
		keys = append(keys, l.Pubs...)
	}
	return v.ZLe(v.ZU(required), VhDistinctSigners(sigs, keys))
}

func (l *VhLock) VhSecret(kind nut10.SecretKind, data string, nonce string) nut10.WellKnownSecret {
	return nut10.WellKnownSecret{Kind: kind, Data: nut10.SecretData{Nonce: nonce, Data: data, Tags: l.Tags}}
}

// C12 soundness: accepted => REQ.  Every lock / witness within the bounds.
func vhP2PKSound(maxN, maxPub, maxRef, maxS int) {
	now := time.Now().Unix()
	l := VhNewLock("lock", maxN, maxPub, maxRef, now)
	secret := l.VhSecret(nut10.P2PK, hex.EncodeToString(vhPub(l.Data).SerializeCompressed()), v.Str("nonce"))
	// round trip of the tag serialisation
	back, perr := ParseP2PKTags(l.Tags)
	v.Assert(perr == nil, "C12 tags written by SerializeP2PKTags parse back")
	if perr == nil {
		v.Assert(v.And(back.NSigs == l.NSigs, back.Locktime == l.Locktime, len(back.Pubkeys) == len(l.Pubs), len(back.Refund) == len(l.Refund)),
			"C12 tag round trip keeps n_sigs, locktime and the key lists")
	}
	proofSecret := v.Str("proof.secret")
	sigs := l.VhWitnessSigs("w", maxS, []byte(proofSecret))
	var witness string
	if v.Int("witness.kind", 0, 1) == 0 {
		wb, _ := json.Marshal(P2PKWitness{Signatures: vhTexts(sigs)})
		witness = string(wb)
	} else {
		witness = v.Str("witness.garbage") // text that is not a JSON witness
		var probe P2PKWitness
		v.Assume(json.Unmarshal([]byte(witness), &probe) != nil)
		sigs = nil
	}
	err := VerifyP2PKLockedProof(cashu.Proof{Secret: proofSecret, Witness: witness}, secret)
	if err == nil {
		v.Reach("accepted")
		v.Assert(l.VhREQ(sigs), "C12 accepted => enough valid signatures from DISTINCT authorised keys (after the locktime: the refund rule)")
	} else {
		v.Reach("rejected")
	}
}

func VHarnessP2PKSound()     { vhP2PKSound(3, 1, 1, 3) }
func VHarnessP2PKSoundWide() { vhP2PKSound(3, 2, 2, 3) }

// C12 completeness: the witness produced by the library's own helper with an authorised key is accepted for every
// lock one key can satisfy (n_sigs <= 1 with the data key; after the locktime with a refund key or anyone).
func VHarnessP2PKComplete() {
	now := time.Now().Unix()
	l := VhNewLock("lock", 1, 2, 1, now)
	secret := l.VhSecret(nut10.P2PK, hex.EncodeToString(vhPub(l.Data).SerializeCompressed()), v.Str("nonce"))
	v.Assume(v.Not(v.And(l.NSigs > 0, len(l.Pubs) == 0))) // n_sigs without co-signers is rejected as malformed (stated)
	key := l.Data
	if l.Expired && len(l.Refund) > 0 {
		key = l.Refund[0]
	}
	proofs, err := AddSignatureToInputs(cashu.Proofs{{Secret: v.Str("proof.secret")}}, key)
	v.Assert(err == nil, "C12 the signing helper succeeds")
	if err == nil {
		verr := VerifyP2PKLockedProof(proofs[0], secret)
		v.Assert(verr == nil, "C12 the canonical witness produced by AddSignatureToInputs with an authorised key is accepted")
		v.Reach("canonical-accepted")
	}
}

// C12: SIG_ALL is detected wherever the flagged input sits among the inputs
func VHarnessSigAllPosition() {
	n := v.Int("nInputs", 1, 3)
	proofs := make(cashu.Proofs, n)
	anySigAll := false
	for i := range proofs {
		switch v.Int(fmt.Sprintf("in%d.kind", i), 0, 2) {
		case 0: // plain secret
			proofs[i].Secret = v.Str(fmt.Sprintf("in%d.plain", i))
			_, derr := nut10.DeserializeSecret(proofs[i].Secret)
			v.Assume(derr != nil)
		case 1, 2:
			flag := SIGINPUTS
			if v.Int(fmt.Sprintf("in%d.kind", i)+".flag", 0, 1) == 1 {
				flag = SIGALL
				anySigAll = true
			}
			k := v.Priv(fmt.Sprintf("in%d.key", i))
			tags := SerializeP2PKTags(P2PKTags{Sigflag: flag})
			s, serr := nut10.SerializeSecret(nut10.WellKnownSecret{Kind: nut10.P2PK, Data: nut10.SecretData{Nonce: v.Str(fmt.Sprintf("in%d.nonce", i)),
				Data: hex.EncodeToString(vhPub(k).SerializeCompressed()), Tags: tags}})
			v.Assume(serr == nil)
			proofs[i].Secret = s
		}
	}
	v.Assert(ProofsSigAll(proofs) == anySigAll, "C12 ProofsSigAll is true exactly when some input carries SIG_ALL, at any position")
	v.Reach("checked")
}

// C06/C12: parsing the tags of an arbitrary NUT-10 secret never panics: 0..2 tags of 0..3 elements each, the tag name
// drawn from the five known names or arbitrary, every other element an arbitrary string.
func VHarnessP2PKTagsTotal() {
	n := v.Int("nTags", 0, 2)
	tags := make([][]string, n)
	for i := range tags {
		m := v.Int(fmt.Sprintf("tag%d.len", i), 0, 3)
		tag := make([]string, m)
		for j := range tag {
			if j == 0 {
				tag[j] = v.PickStr(v.U64(fmt.Sprintf("tag%d.name", i)), SIGFLAG, NSIGS, PUBKEYS, LOCKTIME, REFUND, "other")
			} else if tag[0] == NSIGS || tag[0] == LOCKTIME {
				// numeric fields: the decimal text of an arbitrary 64-bit integer, or text that is not a number
				if v.Int(fmt.Sprintf("tag%d.%d.numeric", i, j), 0, 1) == 1 {
					tag[j] = strconv.FormatInt(v.I64(fmt.Sprintf("tag%d.%d.value", i, j)), 10)
				} else {
					tag[j] = "not-a-number"
				}
			} else {
				tag[j] = v.Str(fmt.Sprintf("tag%d.%d", i, j))
			}
		}
		tags[i] = tag
	}
	_, err := ParseP2PKTags(tags)
	if err == nil {
		v.Reach("parsed")
	} else {
		v.Reach("rejected")
	}
}
