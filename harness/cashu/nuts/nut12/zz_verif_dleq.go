package nut12

import (
	"encoding/hex"

	"github.com/decred/dcrd/dcrec/secp256k1/v4"
	"github.com/elnosh/gonuts/cashu"
	"github.com/elnosh/gonuts/crypto"
	v "github.com/elnosh/gonuts/verifrt"
)

// C10: the DLEQ data the mint attaches (hex e, s) is accepted by the wallet-side check under the keyset's published key,
// and the proof a wallet attaches to an unblinded token (with r) is accepted by a third party.
func VHarnessDLEQWallet() {
	k, r := v.Priv("k"), v.Priv("r")
	secret := v.Str("secret")
	B_, _, err := crypto.BlindMessage(secret, r)
	v.Assume(err == nil)
	C_ := crypto.SignBlindedMessage(B_, k)
	e, s := crypto.GenerateDLEQ(k, B_, C_)
	dleq := cashu.DLEQProof{E: hex.EncodeToString(e.Serialize()), S: hex.EncodeToString(s.Serialize())}
	Bhex := hex.EncodeToString(B_.SerializeCompressed())
	Chex := hex.EncodeToString(C_.SerializeCompressed())
	v.Assert(VerifyBlindSignatureDLEQ(dleq, k.PubKey(), Bhex, Chex), "C10 the mint's DLEQ proof (hex e, s) verifies wallet-side under the published key")
	// the wallet unblinds and attaches r
	C := crypto.UnblindSignature(C_, r, k.PubKey())
	proof := cashu.Proof{Amount: 1, Secret: secret, C: hex.EncodeToString(C.SerializeCompressed()),
		DLEQ: &cashu.DLEQProof{E: dleq.E, S: dleq.S, R: hex.EncodeToString(r.Serialize())}}
	v.Assert(VerifyProofDLEQ(proof, k.PubKey()), "C10 the proof-side DLEQ (with r) attached to an unblinded token is accepted by a third party")
	// a signature made with another key than the published one is detected
	k2 := v.Priv("k2")
	v.Assume(v.Not(v.SamePriv(k, k2)))
	var A2 *secp256k1.PublicKey = k2.PubKey()
	// (algebra only: with the honest (e,s) for k, the equation under A2 would need H(..A2..) = H(..A..): excluded by collision freedom)
	v.Assert(!VerifyBlindSignatureDLEQ(dleq, A2, Bhex, Chex), "C10 the same proof does not verify under a different published key (hash collision free: assumed)")
	v.Reach("done")
}

func vhDLEQProof(tag string, k *secp256k1.PrivateKey, amount uint64) cashu.Proof {
	r := v.Priv(tag + ".r")
	secret := v.Str(tag + ".secret")
	B_, _, err := crypto.BlindMessage(secret, r)
	v.Assume(err == nil)
	C_ := crypto.SignBlindedMessage(B_, k)
	e, s := crypto.GenerateDLEQ(k, B_, C_)
	C := crypto.UnblindSignature(C_, r, k.PubKey())
	return cashu.Proof{Amount: amount, Secret: secret, C: hex.EncodeToString(C.SerializeCompressed()),
		DLEQ: &cashu.DLEQProof{E: hex.EncodeToString(e.Serialize()), S: hex.EncodeToString(s.Serialize()), R: hex.EncodeToString(r.Serialize())}}
}

// C10: the token-level check a receiving wallet runs (VerifyProofsDLEQ): honest proofs of a two-key keyset are accepted,
// and changing the amount of one proof - to the other key's amount or to any amount the keyset has no key for - is detected.
func VHarnessDLEQToken() {
	k1, k2 := v.Priv("k1"), v.Priv("k2")
	v.Assume(v.Not(v.SamePriv(k1, k2)))
	ks := crypto.WalletKeyset{PublicKeys: map[uint64]*secp256k1.PublicKey{1: k1.PubKey(), 2: k2.PubKey()}}
	p1 := vhDLEQProof("p1", k1, 1)
	p2 := vhDLEQProof("p2", k2, 2)
	v.Assert(VerifyProofsDLEQ(cashu.Proofs{p1, p2}, ks), "C10 a token of honest proofs carrying DLEQ data is accepted")
	amt := v.U64("tampered.amount")
	v.Assume(amt != 2)
	which := v.Int("tampered.position", 0, 1)
	p2.Amount = amt
	tok := cashu.Proofs{p1, p2}
	if which == 0 {
		tok = cashu.Proofs{p2, p1}
	}
	v.Assert(!VerifyProofsDLEQ(tok, ks), "C10 a token in which the amount of a proof carrying DLEQ data was changed is rejected (other key's amount, or no key at all)")
	v.Reach("token")
}
