package nut12

import (
	"encoding/hex"

	"github.com/decred/dcrd/dcrec/secp256k1/v4"
	"github.com/elnosh/gonuts/cashu"
	"github.com/elnosh/gonuts/crypto"
	v "github.com/elnosh/gonuts/verifrt"
)

// C10: the DLEQ data the mint attaches (hex e, s) is accepted by the wallet-side check under the keyset's published key,
// and the proof a wallet attaches to an unblinded token (with r) is accepted by a third party.
func VHarnessDLEQWallet() {
	k, r := v.Priv("k"), v.Priv("r")
	secret := v.Str("secret")
	B_, _, err := crypto.BlindMessage(secret, r)
	v.Assume(err == nil)
	C_ := crypto.SignBlindedMessage(B_, k)
	e, s := crypto.GenerateDLEQ(k, B_, C_)
	dleq := cashu.DLEQProof{E: hex.EncodeToString(e.Serialize()), S: hex.EncodeToString(s.Serialize())}
	Bhex := hex.EncodeToString(B_.SerializeCompressed())
	Chex := hex.EncodeToString(C_.SerializeCompressed())
	v.Assert(VerifyBlindSignatureDLEQ(dleq, k.PubKey(), Bhex, Chex), "C10 the mint's DLEQ proof (hex e, s) verifies wallet-side under the published key")
	// the wallet unblinds and attaches r
	C := crypto.UnblindSignature(C_, r, k.PubKey())
	proof := cashu.Proof{Amount: 1, Secret: secret, C: hex.EncodeToString(C.SerializeCompressed()),
		DLEQ: &cashu.DLEQProof{E: dleq.E, S: dleq.S, R: hex.EncodeToString(r.Serialize())}}
	v.Assert(VerifyProofDLEQ(proof, k.PubKey()), "C10 the proof-side DLEQ (with r) attached to an unblinded token is accepted by a third party")
	// a signature made with another key than the published one is detected
	k2 := v.Priv("k2")
	v.Assume(v.Not(v.SamePriv(k, k2)))
	var A2 *secp256k1.PublicKey = k2.PubKey()
	// (algebra only: with the honest (e,s) for k, the equation under A2 would need H(..A2..) = H(..A..): excluded by collision freedom)
	v.Assert(!VerifyBlindSignatureDLEQ(dleq, A2, Bhex, Chex), "C10 the same proof does not verify under a different published key (hash collision free: assumed)")
	v.Reach("done")
}
