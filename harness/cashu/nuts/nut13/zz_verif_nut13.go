package nut13

import (
	"encoding/hex"

	"github.com/btcsuite/btcd/btcutil/hdkeychain"
	"github.com/btcsuite/btcd/chaincfg"
	v "github.com/elnosh/gonuts/verifrt"
)

// C11: NUT-13: secret = hex(priv(m/129372'/0'/k'/c'/0)), r = priv(m/129372'/0'/k'/c'/1), k = int(keyset id bytes, big endian) mod (2^31-1)
func VHarnessNut13() {
	seed := []byte(v.Str("seed"))
	v.Assume(len(seed) == 32)
	master, err := hdkeychain.NewMaster(seed, &chaincfg.MainNetParams)
	v.Assume(err == nil)
	idb := []byte(v.Str("keysetid.bytes"))
	v.Assume(len(idb) == 8)
	id := hex.EncodeToString(idb)
	counter := v.U32("counter")
	v.Assume(counter < 1<<31)
	// reference
	var k uint64
	for i := 0; i < 8; i++ {
		k = k<<8 | uint64(idb[i])
	}
	k = k % 2147483647
	H := uint32(0x80000000)
	a, _ := master.Derive(H + 129372)
	b, _ := a.Derive(H + 0)
	c, _ := b.Derive(H + uint32(k))
	d, _ := c.Derive(H + counter)
	s0, _ := d.Derive(0)
	r0, _ := d.Derive(1)
	sk, _ := s0.ECPrivKey()
	rk, _ := r0.ECPrivKey()

	path, perr := DeriveKeysetPath(master, id)
	v.Assert(perr == nil, "C11 keyset path derivation succeeds for every 8-byte id")
	if perr != nil {
		return
	}
	secret, serr := DeriveSecret(path, counter)
	r, rerr := DeriveBlindingFactor(path, counter)
	v.Assert(v.And(serr == nil, rerr == nil), "C11 secret / blinding factor derivation succeeds")
	if serr == nil && rerr == nil {
		v.Assert(secret == hex.EncodeToString(sk.Serialize()), "C11 secret = hex of the private key at m/129372'/0'/(id mod 2^31-1)'/counter'/0")
		v.Assert(v.SamePriv(r, rk), "C11 blinding factor = private key at m/129372'/0'/(id mod 2^31-1)'/counter'/1")
	}
	v.Reach("done")
}
