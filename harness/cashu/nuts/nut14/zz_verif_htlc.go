package nut14

import (
	"crypto/sha256"
	"encoding/hex"
	"encoding/json"
	"time"

	"github.com/btcsuite/btcd/btcec/v2"
	"github.com/elnosh/gonuts/cashu"
	"github.com/elnosh/gonuts/cashu/nuts/nut10"
	"github.com/elnosh/gonuts/cashu/nuts/nut11"
	v "github.com/elnosh/gonuts/verifrt"
)

// VhHTLC draws the hash field of an HTLC secret and a witness preimage:
// hash: well-formed (sha256 of some preimage) / short / non-hex; preimage: the right one / another one / non-hex / empty.
type VhHTLC struct {
	Data     string // the hash field of the secret
	Preimage string // the witness preimage
	Real     string // the bytes whose sha256 the hash field holds (when well-formed)
	HashOK   bool   // the hash field is 64 hex characters
	PreimgOK bool   // the witness preimage is the (hex encoded) preimage of the hash field
}

func VhNewHTLC(tag string) VhHTLC {
	real := v.Str(tag + ".preimage.bytes")
	realHex := hex.EncodeToString([]byte(real))
	h := sha256.Sum256([]byte(real))
	x := VhHTLC{Real: real}
	switch v.Int(tag+".hash.kind", 0, 2) {
	case 0:
		x.Data = hex.EncodeToString(h[:])
		x.HashOK = true
	case 1: // too short
		x.Data = hex.EncodeToString(h[:16])
	case 2: // text that is not hex (an arbitrary 64-hex value is case 0 with another preimage in the witness)
		x.Data = v.Str(tag + ".hash.garbage")
		_, gerr := hex.DecodeString(x.Data)
		v.Assume(gerr != nil)
	}
	switch v.Int(tag+".preimage.kind", 0, 3) {
	case 0:
		x.Preimage = realHex
		x.PreimgOK = x.HashOK
	case 1: // hex of other bytes
		other := v.Str(tag + ".preimage.other")
		v.Assume(other != real)
		x.Preimage = hex.EncodeToString([]byte(other))
	case 2:
		x.Preimage = v.Str(tag + ".preimage.garbage")
		_, derr := hex.DecodeString(x.Preimage)
		v.Assume(derr != nil)
	case 3:
		x.Preimage = ""
		x.PreimgOK = v.And(x.HashOK, real == "")
	}
	return x
}

// reference predicate of NUT-14
func vhREQ(l *nut11.VhLock, h VhHTLC, sigs []nut11.VhSig) bool {
	if l.Expired {
		if len(l.Refund) == 0 {
			return true
		}
		return v.Not(v.ZEq(nut11.VhDistinctSigners(sigs, l.Refund), v.ZU(0)))
	}
	ok := v.And(h.HashOK, h.PreimgOK)
	if l.NSigs > 0 {
		ok = v.And(ok, v.ZLe(v.ZU(uint64(l.NSigs)), nut11.VhDistinctSigners(sigs, l.Pubs)))
	}
	return ok
}

func vhHTLCSound(maxN, maxPub, maxRef, maxS int) {
	now := time.Now().Unix()
	l := nut11.VhNewLock("lock", maxN, maxPub, maxRef, now)
	h := VhNewHTLC("htlc")
	secret := l.VhSecret(nut10.HTLC, h.Data, v.Str("nonce"))
	proofSecret := v.Str("proof.secret")
	sigs := l.VhWitnessSigs("w", maxS, []byte(proofSecret))
	var witness string
	if v.Int("witness.kind", 0, 1) == 0 {
		texts := make([]string, len(sigs))
		for i := range sigs {
			texts[i] = sigs[i].Text
		}
		wb, _ := json.Marshal(HTLCWitness{Preimage: h.Preimage, Signatures: texts})
		witness = string(wb)
	} else {
		witness = v.Str("witness.garbage") // text that is not a JSON witness
		var probe HTLCWitness
		v.Assume(json.Unmarshal([]byte(witness), &probe) != nil)
		sigs = nil
		// a malformed witness is read as the empty witness: it carries the empty preimage, which only opens sha256("")
		h.PreimgOK = v.And(h.HashOK, h.Real == "")
	}
	err := VerifyHTLCProof(cashu.Proof{Secret: proofSecret, Witness: witness}, secret)
	if err == nil {
		v.Reach("accepted")
		v.Assert(vhREQ(l, h, sigs), "C13 accepted => before the locktime: 32-byte hash, matching preimage and n_sigs valid signatures from DISTINCT listed keys; after it: the refund rule")
	} else {
		v.Reach("rejected")
	}
}

func VHarnessHTLCSound()     { vhHTLCSound(2, 1, 1, 2) }
func VHarnessHTLCSoundWide() { vhHTLCSound(2, 2, 2, 2) }

// the witness produced by AddWitnessHTLC with the right key and preimage is accepted (n_sigs <= 1)
func VHarnessHTLCComplete() {
	now := time.Now().Unix()
	l := nut11.VhNewLock("lock", 1, 2, 1, now)
	v.Assume(!l.Expired)
	v.Assume(v.Not(v.And(l.NSigs > 0, len(l.Pubs) == 0)))
	real := v.Str("htlc.preimage.bytes")
	hh := sha256.Sum256([]byte(real))
	secret := l.VhSecret(nut10.HTLC, hex.EncodeToString(hh[:]), v.Str("nonce"))
	var key *btcec.PrivateKey = l.Foreign
	if l.NSigs > 0 {
		key = l.Pubs[0]
	}
	proofs, err := AddWitnessHTLC(cashu.Proofs{{Secret: v.Str("proof.secret")}}, secret, hex.EncodeToString([]byte(real)), key)
	v.Assert(err == nil, "C13 AddWitnessHTLC succeeds with a listed key and n_sigs <= 1")
	if err == nil {
		v.Assert(VerifyHTLCProof(proofs[0], secret) == nil, "C13 the witness produced by AddWitnessHTLC with the right key and preimage is accepted")
		v.Reach("canonical-accepted")
	}
}
