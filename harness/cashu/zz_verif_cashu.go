package cashu

import (
	v "github.com/elnosh/gonuts/verifrt"
)

// C02 kernel: checked amount sums agree with an unbounded-integer reference.
func VHarnessAmountChecked() {
	n := v.Int("n", 0, 4)
	bms := make(BlindedMessages, n)
	ref := v.ZU(0)
	for i := range bms {
		bms[i].Amount = v.U64("amount")
		ref = v.ZAdd(ref, v.ZU(bms[i].Amount))
	}
	sum, err := bms.AmountChecked()
	max := v.ZU(^uint64(0))
	if err == nil {
		v.Assert(v.ZEq(v.ZU(sum), ref), "AmountChecked: no error => result is the exact sum")
		v.Reach("ok")
	} else {
		v.Assert(v.ZLt(max, ref), "AmountChecked: error only if the exact sum exceeds 2^64-1")
		v.Reach("overflow")
	}
	a, b := v.U64("a"), v.U64("b")
	s, of := OverflowAddUint64(a, b)
	exact := v.ZAdd(v.ZU(a), v.ZU(b))
	v.Assert(of == v.ZLt(max, exact), "OverflowAddUint64 flags exactly the overflowing sums")
	if !of {
		v.Assert(v.ZEq(v.ZU(s), exact), "OverflowAddUint64 returns the exact sum")
	}
	d, uf := UnderflowSubUint64(a, b)
	v.Assert(uf == v.ZLt(v.ZU(a), v.ZU(b)), "UnderflowSubUint64 flags exactly b > a")
	if !uf {
		v.Assert(v.ZEq(v.ZAdd(v.ZU(d), v.ZU(b)), v.ZU(a)), "UnderflowSubUint64 returns the exact difference")
	}
}

// C14 (a): decoding an arbitrary string never panics, and every accessor can be called on the result.
func VHarnessDecodeAny() {
	s := v.Str("token")
	tok, err := DecodeToken(s)
	if err == nil {
		tok.Mint()
		tok.Amount()
		tok.Proofs()
		v.Reach("decoded")
	} else {
		v.Reach("rejected")
	}
}
