package cashu

import (
	"encoding/hex"

	v "github.com/elnosh/gonuts/verifrt"
)

// C02 kernel: checked amount sums agree with an unbounded-integer reference.
func VHarnessAmountChecked() {
	n := v.Int("n", 0, 4)
	bms := make(BlindedMessages, n)
	ref := v.ZU(0)
	for i := range bms {
		bms[i].Amount = v.U64("amount")
		ref = v.ZAdd(ref, v.ZU(bms[i].Amount))
	}
	sum, err := bms.AmountChecked()
	max := v.ZU(^uint64(0))
	if err == nil {
		v.Assert(v.ZEq(v.ZU(sum), ref), "AmountChecked: no error => result is the exact sum")
		v.Reach("ok")
	} else {
		v.Assert(v.ZLt(max, ref), "AmountChecked: error only if the exact sum exceeds 2^64-1")
		v.Reach("overflow")
	}
	a, b := v.U64("a"), v.U64("b")
	s, of := OverflowAddUint64(a, b)
	exact := v.ZAdd(v.ZU(a), v.ZU(b))
	v.Assert(of == v.ZLt(max, exact), "OverflowAddUint64 flags exactly the overflowing sums")
	if !of {
		v.Assert(v.ZEq(v.ZU(s), exact), "OverflowAddUint64 returns the exact sum")
	}
	d, uf := UnderflowSubUint64(a, b)
	v.Assert(uf == v.ZLt(v.ZU(a), v.ZU(b)), "UnderflowSubUint64 flags exactly b > a")
	if !uf {
		v.Assert(v.ZEq(v.ZAdd(v.ZU(d), v.ZU(b)), v.ZU(a)), "UnderflowSubUint64 returns the exact difference")
	}
}

// C14 (a): decoding an arbitrary string never panics, and every accessor can be called on the result.
func VHarnessDecodeAny() {
	s := v.Str("token")
	tok, err := DecodeToken(s)
	if err == nil {
		tok.Mint()
		tok.Amount()
		tok.Proofs()
		v.Reach("decoded")
	} else {
		v.Reach("rejected")
	}
}

func vhHexOf(label string) string { return hex.EncodeToString([]byte(v.Str(label))) }

func vhTokProof(tag string) Proof {
	p := Proof{Amount: v.U64(tag + ".amount"), Id: vhHexOf(tag + ".idbytes"), Secret: v.Str(tag + ".secret"),
		C: vhHexOf(tag + ".Cbytes"), Witness: v.Str(tag + ".witness")}
	if v.Int(tag+".dleq", 0, 1) == 1 {
		p.DLEQ = &DLEQProof{E: vhHexOf(tag + ".e"), S: vhHexOf(tag + ".s"), R: vhHexOf(tag + ".r")}
	}
	return p
}

func vhSameProof(a, b Proof, withDLEQ bool) bool {
	same := v.And(a.Amount == b.Amount, a.Id == b.Id, a.Secret == b.Secret, a.C == b.C, a.Witness == b.Witness)
	if withDLEQ && a.DLEQ != nil {
		if b.DLEQ == nil {
			return false
		}
		return v.And(same, a.DLEQ.E == b.DLEQ.E, a.DLEQ.S == b.DLEQ.S, a.DLEQ.R == b.DLEQ.R)
	}
	return v.And(same, b.DLEQ == nil)
}

// C14 (b): building a V3 / V4 token from arbitrary proofs, serialising it and decoding the string gives back the mint URL,
// the same proofs (V4 groups them by keyset id: compared as a multiset) and the amount; DLEQ complete when requested.
func VHarnessTokenRoundTrip()  { vhTokenRoundTrip(2) }
func VHarnessTokenRoundTrip3() { vhTokenRoundTrip(3) }
func VHarnessTokenRoundTrip4() { vhTokenRoundTrip(4) }

func vhTokenRoundTrip(maxN int) {
	n := v.Int("nProofs", 0, maxN)
	if maxN > 2 {
		v.Assume(n == maxN) // the smaller sizes are the other harness
	}
	proofs := make(Proofs, n)
	for i := range proofs {
		proofs[i] = vhTokProof("p" + string(rune('0'+i)))
	}
	orig := append(Proofs{}, proofs...) // NewTokenV3 clears DLEQ in place
	mint := v.Str("mint")
	includeDLEQ := v.Bool("includeDLEQ")
	version := v.Int("version", 3, 4)
	wantUnit := Unit(v.Int("unit", 0, 1)) // Sat, or the first value that is not a unit
	var tok Token
	var err error
	if version == 3 {
		var t TokenV3
		t, err = NewTokenV3(proofs, mint, wantUnit, includeDLEQ)
		tok = t
	} else {
		var t TokenV4
		t, err = NewTokenV4(proofs, mint, wantUnit, includeDLEQ)
		tok = t
	}
	if wantUnit != Sat {
		v.Assert(err != nil, "C14 no token is built for a unit the library does not know")
		v.Reach("not-built")
		return
	}
	if err != nil {
		// the only refusal for well-formed hex fields: a V4 token asked to carry a DLEQ proof without r
		partial := false
		for _, p := range orig {
			partial = v.Or(partial, p.DLEQ != nil && len(p.DLEQ.R) == 0)
		}
		v.Assert(v.And(version == 4, includeDLEQ, partial), "C14 a token of well-formed proofs can be built (V4 refuses only a DLEQ proof without r)")
		v.Reach("not-built")
		return
	}
	s, err := tok.Serialize()
	v.Assert(err == nil, "C14 a built token serialises")
	if err != nil {
		return
	}
	dec, err := DecodeToken(s)
	v.Assert(err == nil, "C14 a serialised token decodes")
	if err != nil {
		return
	}
	v.Assert(dec.Mint() == mint, "C14 the decoded token carries the mint URL")
	unit := ""
	switch t := dec.(type) {
	case *TokenV3:
		unit = t.Unit
	case *TokenV4:
		unit = t.Unit
	}
	v.Assert(unit == wantUnit.String(), "C14 the decoded token carries the unit it was built with")
	got := dec.Proofs()
	v.Assert(len(got) == n, "C14 the decoded token carries as many proofs as were put in")
	if len(got) == n {
		switch n {
		case 1:
			v.Assert(vhSameProof(orig[0], got[0], includeDLEQ), "C14 the decoded proof equals the original (amount, id, secret, C, witness, DLEQ when requested)")
		case 2:
			v.Assert(v.Or(v.And(vhSameProof(orig[0], got[0], includeDLEQ), vhSameProof(orig[1], got[1], includeDLEQ)),
				v.And(vhSameProof(orig[0], got[1], includeDLEQ), vhSameProof(orig[1], got[0], includeDLEQ))),
				"C14 the decoded proofs equal the originals (amount, id, secret, C, witness, DLEQ when requested)")
		case 3:
			any := false
			for _, pm := range [][3]int{{0, 1, 2}, {0, 2, 1}, {1, 0, 2}, {1, 2, 0}, {2, 0, 1}, {2, 1, 0}} {
				any = v.Or(any, v.And(vhSameProof(orig[0], got[pm[0]], includeDLEQ), vhSameProof(orig[1], got[pm[1]], includeDLEQ), vhSameProof(orig[2], got[pm[2]], includeDLEQ)))
			}
			v.Assert(any, "C14 the decoded proofs equal the originals as a multiset (amount, id, secret, C, witness, DLEQ when requested)")
		case 4:
			// V4 groups by keyset id and keeps the order inside a group: every original is found at a position of its own
			used := [4]bool{}
			all := true
			for i := 0; i < 4; i++ {
				found := false
				for j := 0; j < 4; j++ {
					if !found && !used[j] && vhSameProof(orig[i], got[j], includeDLEQ) {
						found, used[j] = true, true
					}
				}
				all = all && found
			}
			v.Assert(all, "C14 the decoded proofs equal the originals as a multiset (4 proofs; greedy matching)")
		}
	}
	sum := uint64(0)
	for _, p := range orig {
		sum += p.Amount
	}
	v.Assert(v.And(dec.Amount() == sum, tok.Amount() == sum), "C14 the token amount is the sum of its proofs, before and after the round trip")
	v.Reach("round-trip")
}
