package crypto

import (
	"crypto/sha256"
	"encoding/hex"

	"github.com/decred/dcrd/dcrec/secp256k1/v4"
	v "github.com/elnosh/gonuts/verifrt"
)

func vhMulPt(k *secp256k1.PrivateKey, P *secp256k1.PublicKey) *secp256k1.PublicKey {
	var p, r secp256k1.JacobianPoint
	P.AsJacobian(&p)
	secp256k1.ScalarMultNonConst(&k.Key, &p, &r)
	r.ToAffine()
	return secp256k1.NewPublicKey(&r.X, &r.Y)
}

func vhAddPt(P, Q *secp256k1.PublicKey) *secp256k1.PublicKey {
	var p, q, r secp256k1.JacobianPoint
	P.AsJacobian(&p)
	Q.AsJacobian(&q)
	secp256k1.AddNonConst(&p, &q, &r)
	r.ToAffine()
	return secp256k1.NewPublicKey(&r.X, &r.Y)
}

func vhNegKey(k *secp256k1.PrivateKey) *secp256k1.PrivateKey {
	var n secp256k1.ModNScalar
	n.NegateVal(&k.Key)
	return secp256k1.NewPrivateKey(&n)
}

// reference of NUT-12 written from the specification: e == sha256( hex(R1) || hex(R2) || hex(A) || hex(C') ) (uncompressed),
// R1 = s*G - e*A, R2 = s*B' - e*C'
func vhRefVerifyDLEQ(e, s *secp256k1.PrivateKey, A, B_, C_ *secp256k1.PublicKey) bool {
	ne := vhNegKey(e)
	R1 := vhAddPt(s.PubKey(), vhMulPt(ne, A))
	R2 := vhAddPt(vhMulPt(s, B_), vhMulPt(ne, C_))
	txt := ""
	for _, p := range []*secp256k1.PublicKey{R1, R2, A, C_} {
		txt += hex.EncodeToString(p.SerializeUncompressed())
	}
	h := sha256.Sum256([]byte(txt))
	return v.BytesEq(e.Serialize(), h[:])
}

// C10: BDHKE algebra for every secret, blinding factor and key
func VHarnessBDHKE() {
	secret := v.Str("secret")
	r, r2, k, k2 := v.Priv("r"), v.Priv("r2"), v.Priv("k"), v.Priv("k2")
	B_, _, err := BlindMessage(secret, r)
	v.Assume(err == nil)
	C_ := SignBlindedMessage(B_, k)
	C := UnblindSignature(C_, r, k.PubKey())
	Y, herr := HashToCurve([]byte(secret))
	v.Assume(herr == nil)
	v.Assert(v.SamePub(C, vhMulPt(k, Y)), "C10 unblinding the signature on the blinded message yields exactly k*hash_to_curve(secret)")
	v.Assert(Verify(secret, k, C), "C10 the unblinded signature verifies under the signing key, for every secret, r, k")
	B2, _, err2 := BlindMessage(secret, r2)
	v.Assume(err2 == nil)
	C2 := UnblindSignature(SignBlindedMessage(B2, k), r2, k.PubKey())
	v.Assert(C.IsEqual(C2), "C10 the unblinded signature is independent of the blinding factor")
	v.Assume(v.Not(v.SamePriv(k, k2)))
	v.Assert(!Verify(secret, k2, C), "C10 verification under any other key fails")
	other := v.Str("othersecret")
	v.Assume(other != secret)
	v.Assert(!Verify(other, k, C), "C10 verification for any other secret fails (hash_to_curve collision free: assumed)")
	v.Reach("done")
}

// C10: DLEQ: completeness for every nonce, and the accept condition is exactly the NUT-12 equation
func VHarnessDLEQ() {
	k := v.Priv("k")
	b := v.Priv("b")
	B_ := b.PubKey() // any blinded message is some point b*G
	C_ := SignBlindedMessage(B_, k)
	e, s := GenerateDLEQ(k, B_, C_)
	v.Assert(VerifyDLEQ(e, s, k.PubKey(), B_, C_), "C10 every DLEQ proof the mint generates is accepted under the published key, for every nonce")
	v.Reach("complete")
	// arbitrary (e, s, A, B', C'): the implementation accepts exactly when the specification's equation holds
	e2, s2, a2, b2, c2 := v.Priv("e2"), v.Priv("s2"), v.Priv("a2"), v.Priv("b2"), v.Priv("c2")
	got := VerifyDLEQ(e2, s2, a2.PubKey(), b2.PubKey(), c2.PubKey())
	want := vhRefVerifyDLEQ(e2, s2, a2.PubKey(), b2.PubKey(), c2.PubKey())
	v.Assert(got == want, "C10 VerifyDLEQ accepts exactly when e = H(s*G - e*A, s*B' - e*C', A, C') (NUT-12), for arbitrary inputs")
	v.Reach("spec")
}
