package crypto

import (
	"crypto/sha256"
	"encoding/hex"

	"github.com/btcsuite/btcd/btcutil/hdkeychain"
	"github.com/btcsuite/btcd/chaincfg"
	"github.com/decred/dcrd/dcrec/secp256k1/v4"
	v "github.com/elnosh/gonuts/verifrt"
)

const vhH2CIterations = 40 // stated unwinding bound: messages whose point is found within 40 counter values

// hash_to_curve written from NUT-00: Y = PublicKey('02' || SHA256(SHA256(DOMAIN || msg) || counter_le32)), first counter that works
func vhRefHashToCurve(msg []byte) *secp256k1.PublicKey {
	h := sha256.Sum256(append([]byte("Secp256k1_HashToCurve_Cashu_"), msg...))
	for c := uint32(0); c < vhH2CIterations; c++ {
		le := []byte{byte(c), byte(c >> 8), byte(c >> 16), byte(c >> 24)}
		hh := sha256.Sum256(append(h[:], le...))
		p, err := secp256k1.ParsePubKey(append([]byte{0x02}, hh[:]...))
		if err == nil {
			return p
		}
	}
	return nil
}

func VHarnessHashToCurve() {
	msg := []byte(v.Str("message"))
	ref := vhRefHashToCurve(msg)
	v.Assume(ref != nil) // unwinding bound
	got, err := HashToCurve(msg)
	v.Assert(err == nil, "C11 hash_to_curve finds the point the specification finds")
	if err == nil {
		v.Assert(v.SamePub(got, ref), "C11 hash_to_curve = '02' || SHA256(SHA256(domain || msg) || counter as 4 bytes little endian), first valid counter")
	}
	v.Reach("done")
}

// keyset id written from NUT-02: "00" || first 14 hex characters of SHA256(concatenation of the compressed keys sorted by amount)
func vhRefKeysetId(amounts []uint64, keys []*secp256k1.PublicKey) string {
	// selection sort on copies
	a := append([]uint64{}, amounts...)
	k := append([]*secp256k1.PublicKey{}, keys...)
	for i := 0; i < len(a); i++ {
		for j := i + 1; j < len(a); j++ {
			if a[j] < a[i] {
				a[i], a[j] = a[j], a[i]
				k[i], k[j] = k[j], k[i]
			}
		}
	}
	var all []byte
	for _, p := range k {
		all = append(all, p.SerializeCompressed()...)
	}
	h := sha256.Sum256(all)
	return "00" + hex.EncodeToString(h[:])[:14]
}

func VHarnessKeysetId()  { vhKeysetId(1, 3) }
func VHarnessKeysetId4() { vhKeysetId(4, 4) }
func VHarnessKeysetId5() { vhKeysetId(5, 5) }
func VHarnessKeysetId6() { vhKeysetId(6, 6) }

func vhKeysetId(lo, hi int) {
	n := v.Int("nKeys", lo, hi)
	amounts := make([]uint64, n)
	keys := make([]*secp256k1.PublicKey, n)
	m := PublicKeys{}
	for i := 0; i < n; i++ {
		amounts[i] = v.U64("amount")
		for j := 0; j < i; j++ {
			v.Assume(amounts[i] != amounts[j])
		}
		keys[i] = v.Priv("key").PubKey()
		m[amounts[i]] = keys[i]
	}
	v.Assert(DeriveKeysetId(m) == vhRefKeysetId(amounts, keys), "C11 keyset id = '00' || hex(SHA256(keys sorted by amount))[:14] for every key set")
	v.Reach("done")
}

// the mint's real 60-key keyset: id, denominations and derivation path m/0'/0'/idx'/i'
func VHarnessGenerateKeyset() {
	seed := []byte(v.Str("seed"))
	v.Assume(len(seed) == 32)
	master, err := hdkeychain.NewMaster(seed, &chaincfg.MainNetParams)
	v.Assume(err == nil)
	idx := v.U32("index")
	v.Assume(idx < 1<<31)
	ks, kerr := GenerateKeyset(master, idx, 100, true)
	v.Assert(kerr == nil, "C11/C09 keyset generation succeeds")
	if kerr != nil {
		return
	}
	v.Assert(len(ks.Keys) == 60, "C09 a keyset has 60 keys")
	h := uint32(hdkeychain.HardenedKeyStart)
	p0, _ := master.Derive(h + 0)
	p1, _ := p0.Derive(h + 0)
	p2, _ := p1.Derive(h + idx)
	amounts := make([]uint64, 0, 60)
	pubs := make([]*secp256k1.PublicKey, 0, 60)
	for i := 0; i < 60; i++ {
		amount := uint64(1) << uint(i)
		kp, ok := ks.Keys[amount]
		v.Assert(ok, "C09 the keyset holds a key for every power of two up to 2^59")
		if !ok {
			return
		}
		child, _ := p2.Derive(h + uint32(i))
		priv, _ := child.ECPrivKey()
		v.Assert(v.And(v.SamePriv(kp.PrivateKey, priv), v.SamePub(kp.PublicKey, priv.PubKey())), "C09/C11 key for 2^i is the BIP-32 child m/0'/0'/idx'/i' of the seed")
		amounts = append(amounts, amount)
		pubs = append(pubs, kp.PublicKey)
	}
	v.Assert(ks.Id == vhRefKeysetId(amounts, pubs), "C09/C11 the keyset id equals the NUT-02 derivation from its 60 public keys")
	v.Assert(v.And(ks.DerivationPathIdx == idx, ks.Active, ks.InputFeePpk == 100, ks.Unit == "sat"), "C09 index, fee, unit, active flag are recorded as given")
	v.Reach("done")
}
