package sqlite

import (
	"database/sql"

	v "github.com/elnosh/gonuts/verifrt"
)

// VhNewDB returns the mint database: the relational model in the engine, a real migrated SQLite file natively.
func VhNewDB() *SQLiteDB {
	if v.Native() {
		db, err := InitSQLite(v.TempDir())
		if err != nil {
			panic(err)
		}
		return db
	}
	return &SQLiteDB{db: v.SqlDB("")}
}

func (s *SQLiteDB) VhRaw() *sql.DB { return s.db }
