package sqlite

import (
	"database/sql"
	"encoding/hex"
	"fmt"

	"github.com/elnosh/gonuts/crypto"

	v "github.com/elnosh/gonuts/verifrt"
)

// VhNewDB returns the mint database: the relational model in the engine, a real migrated SQLite file natively.
func VhNewDB() *SQLiteDB {
	if v.Native() {
		db, err := InitSQLite(v.TempDir())
		if err != nil {
			panic(err)
		}
		return db
	}
	return &SQLiteDB{db: v.SqlDB("")}
}

func (s *SQLiteDB) VhRaw() *sql.DB { return s.db }

// Storage-level list lookups (what verifyProofs / state check / restore rely on for *every* position of a request):
// the spent, pending and signature lookups return exactly the stored rows whose key is in the list, also for lists
// longer than SQLite's historical 999-parameter limit.
func VHarnessStorageLists() {
	db := VhNewDB()
	raw := db.VhRaw()
	v.SqlSymRows(raw, "proofs", 1)
	v.SqlSymRows(raw, "pending_proofs", 1)
	v.SqlSymRows(raw, "blind_signatures", 1)
	n := []int{1, 1000, 1001}[v.Int("len", 0, 2)]
	// the request: Ys of n distinct concrete secrets (the stored rows carry y = Y(secret) of an arbitrary secret), n distinct B_ strings
	ys := make([]string, n)
	bs := make([]string, n)
	for i := range ys {
		Y, err := crypto.HashToCurve([]byte(fmt.Sprintf("listed-secret-%d", i)))
		v.Assume(err == nil)
		ys[i] = hex.EncodeToString(Y.SerializeCompressed())
		bs[i] = fmt.Sprintf("02storagekey%d", i)
	}
	in := func(table, col string) bool {
		key := v.SqlRowStr(raw, table, 0, col)
		hit := false
		for i := range ys {
			if col == "b_" {
				hit = v.Or(hit, key == bs[i])
			} else {
				hit = v.Or(hit, key == ys[i])
			}
		}
		return v.And(v.SqlRowPresent(raw, table, 0), hit)
	}
	wantUsed, wantPend, wantSig := in("proofs", "y"), in("pending_proofs", "y"), in("blind_signatures", "b_")
	used, err := db.GetProofsUsed(ys)
	v.Assert(err == nil, "C01 the spent lookup answers for a list of any length")
	if err == nil {
		v.Assert((len(used) == 1) == wantUsed, "C01 the spent lookup finds a spent secret at every position of the list")
		v.Assert(len(used) <= 1, "C01 the spent lookup returns only stored rows")
	}
	pend, err := db.GetPendingProofs(ys)
	v.Assert(err == nil, "C01 the pending lookup answers for a list of any length")
	if err == nil {
		v.Assert((len(pend) == 1) == wantPend, "C01 the pending lookup finds a locked secret at every position of the list")
		v.Assert(len(pend) <= 1, "C01 the pending lookup returns only stored rows")
	}
	sigs, err := db.GetBlindSignatures(bs)
	v.Assert(err == nil, "C15 the signature lookup answers for a list of any length")
	if err == nil {
		v.Assert((len(sigs) == 1) == wantSig, "C15 the signature lookup finds a signed message at every position of the list")
	}
	v.Reach("looked-up")
	if n > 999 {
		v.Reach("long-list")
	}
}
