package mint

import (
	"context"
	"encoding/hex"
	"fmt"

	"github.com/btcsuite/btcd/btcutil/hdkeychain"
	"github.com/btcsuite/btcd/chaincfg"
	"github.com/elnosh/gonuts/cashu"
	"github.com/elnosh/gonuts/cashu/nuts/nut02"
	"github.com/elnosh/gonuts/cashu/nuts/nut04"
	"github.com/elnosh/gonuts/cashu/nuts/nut05"
	"github.com/elnosh/gonuts/crypto"
	"github.com/elnosh/gonuts/mint/storage"
	v "github.com/elnosh/gonuts/verifrt"
)

// C07: every operation is run with a crash (process death, in-memory state lost, restart on the same
// database) or a storage fault (the call returns an error without effect) at a position chosen by the
// solver among all its storage / Lightning calls; the persistent state is then examined and probed.

func (env *vhEnv) strike(fault bool, f func()) bool {
	if fault {
		return v.FaultRun(f)
	}
	hit := v.CrashRun(f)
	if hit {
		env.restart()
	}
	return hit
}

// a balanced 1-in / 1-out request on a fee-less keyset
func (env *vhEnv) balancedRequest() (cashu.Proofs, cashu.BlindedMessages, []string) {
	p := env.genuineProof("in0")
	v.Assume(p.Id == env.ids[0])
	v.Assume(p.Amount == vhDenoms[0])
	v.Assume(len(p.Secret) <= cashu.MAX_SECRET_LENGTH)
	out := env.output("out0", 0, 0)
	return cashu.Proofs{p}, cashu.BlindedMessages{out}, []string{vhY(p.Secret)}
}

func vhCrashSwap(fault bool) {
	env := vhNewEnv(1)
	v.Assume(env.m.keysets[env.ids[0]].InputFeePpk == 0)
	env.hook()
	raw := env.db.VhRaw()
	in, out, ys := env.balancedRequest()
	var sigs cashu.BlindedSignatures
	var err error
	returned := false
	hit := env.strike(fault, func() { sigs, err = env.m.Swap(in, out); returned = true })
	m := env.m
	used := v.ZEq(v.SqlCount(raw, "proofs", "y", ys[0]), v.ZU(1))
	_, rs, rerr := m.RestoreSignatures(out)
	v.Assume(rerr == nil)
	restorable := len(rs) == 1
	if hit {
		v.Reach("struck")
	} else {
		v.Reach("not-struck")
	}
	v.Assert(v.Implies(used, restorable), "C07 A1 swap: inputs consumed => the outputs are restorable")
	v.Assert(v.Implies(restorable, used), "C07 S1 swap: output signatures are stored (restorable by anyone who knows B_) only once the inputs are consumed - otherwise the value exists twice")
	if returned && err == nil {
		v.Assert(v.And(used, restorable, len(sigs) == 1), "C07 D1 swap: a response the client received is durable (spent stays spent, signatures stored)")
	}
	if returned && err != nil {
		v.Assert(v.Not(used), "C07 A1 swap: an error response means the inputs were not consumed")
	}
	// adversarial follow-up: replay the same request
	sigs2, err2 := m.Swap(in, out)
	if used {
		v.Assert(err2 != nil, "C07 S1 swap: consumed inputs cannot be swapped again after the crash")
	} else {
		v.Assert(v.Or(err2 == nil, restorable), "C07 A1 swap: unconsumed inputs stay usable in a retried request")
	}
	_ = sigs2
}

func VHarnessCrashSwap() { vhCrashSwap(false) }
func VHarnessFaultSwap() { vhCrashSwap(true) }

func vhCrashMint(fault bool) {
	env := vhNewEnv(1)
	env.hook()
	raw := env.db.VhRaw()
	q := storage.MintQuote{Id: "mintq1", Amount: vhDenoms[0], PaymentRequest: "lnbc-mintq1", PaymentHash: "hash-mintq1", State: nut04.Paid, Expiry: 1}
	v.Assume(env.db.SaveMintQuote(q) == nil)
	out := cashu.BlindedMessages{env.output("out0", 0, 0)}
	req := nut04.PostMintBolt11Request{Quote: q.Id, Outputs: out}
	var sigs cashu.BlindedSignatures
	var err error
	returned := false
	hit := env.strike(fault, func() { sigs, err = env.m.MintTokens(req); returned = true })
	m := env.m
	if hit {
		v.Reach("struck")
	} else {
		v.Reach("not-struck")
	}
	_, rs, rerr := m.RestoreSignatures(out)
	v.Assume(rerr == nil)
	restorable := len(rs) == 1
	if returned && err == nil {
		v.Assert(v.And(restorable, len(sigs) == 1), "C07 D1 mint: returned signatures are stored (restorable)")
	}
	// the paid quote is either still mintable or its signatures are stored
	_, err2 := m.MintTokens(req)
	v.Assert(v.Or(restorable, err2 == nil), "C07 A2 mint: a paid quote is still mintable after the crash or its signatures are restorable")
	// never two issuances: after everything, at most the quoted amount has been signed for this quote
	_, err3 := m.MintTokens(nut04.PostMintBolt11Request{Quote: q.Id, Outputs: cashu.BlindedMessages{env.output("out1", 0, 0)}})
	v.Assert(v.Not(v.And(restorable, err2 == nil)), "C07 S2 mint: the quote is not issued twice (retry succeeds only if nothing was stored)")
	v.Assert(err3 != nil, "C07 S2 mint: no further issuance with new outputs after the quote has been issued or retried")
	_ = raw
}

func VHarnessCrashMint() { vhCrashMint(false) }
func VHarnessFaultMint() { vhCrashMint(true) }

func vhCrashMelt(fault bool) {
	env := vhNewEnv(1)
	v.Assume(env.m.keysets[env.ids[0]].InputFeePpk == 0)
	env.hook()
	raw := env.db.VhRaw()
	q := storage.MeltQuote{Id: "mq1", InvoiceRequest: "lnbc-mq1", PaymentHash: "ph-mq1", Amount: vhDenoms[0], FeeReserve: 0, State: nut05.Unpaid, Expiry: 1}
	v.Assume(env.db.SaveMeltQuote(q) == nil)
	in, _, ys := env.balancedRequest()
	req := nut05.PostMeltBolt11Request{Quote: q.Id, Inputs: in}
	var res storage.MeltQuote
	var err error
	returned := false
	hit := env.strike(fault, func() { res, err = env.m.MeltTokens(context.Background(), req); returned = true })
	m := env.m
	if hit {
		v.Reach("struck")
	} else {
		v.Reach("not-struck")
	}
	attempted := len(env.ln.Pays) > 0
	spent := v.ZEq(v.SqlCount(raw, "proofs", "y", ys[0]), v.ZU(1))
	pend := v.ZEq(v.SqlCount(raw, "pending_proofs", "y", ys[0]), v.ZU(1))
	st, gerr := env.db.GetMeltQuote(q.Id)
	v.Assume(gerr == nil)
	// may the payment have gone (or still go) through? i.e. an attempt that was not answered by a definitive failure
	mayBePaid := v.And(attempted, v.Not(env.ln.definitiveFailure()))
	v.Assert(v.Implies(mayBePaid, v.Or(spent, pend)), "C07 S1 melt: inputs of a payment that may succeed are never free (spent or locked)")
	v.Assert(v.Implies(pend, st.State == nut05.Pending), "C07 A3 melt: locked inputs belong to a PENDING quote, so that a later poll resolves them")
	v.Assert(v.Implies(spent, v.Or(st.State == nut05.Paid, st.State == nut05.Pending)), "C07 A3 melt: spent inputs belong to a PAID quote (or a PENDING one the next poll settles)")
	if returned && err == nil && res.State == nut05.Paid {
		v.Assert(spent, "C07 D1 melt: a PAID response is durable (inputs spent)")
	}
	// follow-up: the same inputs in a swap
	if spent || pend {
		_, serr := m.Swap(in, cashu.BlindedMessages{env.output("out0", 0, 0)})
		v.Assert(serr != nil, "C07 S1 melt: spent or locked inputs cannot be swapped after the crash")
	}
	// follow-up poll adopts the final backend answer without ever freeing paid inputs
	if pend && st.State == nut05.Pending {
		_, perr := m.GetMeltQuoteState(context.Background(), q.Id)
		if perr == nil {
			spent2 := v.ZEq(v.SqlCount(raw, "proofs", "y", ys[0]), v.ZU(1))
			pend2 := v.ZEq(v.SqlCount(raw, "pending_proofs", "y", ys[0]), v.ZU(1))
			v.Assert(v.Implies(env.ln.anySucceeded(), v.Or(spent2, pend2)), "C07 S1 melt: after a poll, inputs of a succeeded payment are spent (or still locked)")
		}
	}
}

func VHarnessCrashMelt() { vhCrashMelt(false) }
func VHarnessFaultMelt() { vhCrashMelt(true) }

// pending-melt resolution (GetMeltQuoteState on a PENDING quote) struck at any point
func vhCrashPoll(fault bool) {
	env := vhNewEnv(1)
	env.hook()
	raw := env.db.VhRaw()
	q := storage.MeltQuote{Id: "mq1", InvoiceRequest: "lnbc-mq1", PaymentHash: "ph-mq1", Amount: vhDenoms[0], FeeReserve: 0, State: nut05.Pending, Expiry: 1}
	v.Assume(env.db.SaveMeltQuote(q) == nil)
	in, _, ys := env.balancedRequest()
	v.Assume(env.db.AddPendingProofs(in, q.Id) == nil)
	hit := env.strike(fault, func() { env.m.GetMeltQuoteState(context.Background(), q.Id) })
	if hit {
		v.Reach("struck")
	} else {
		v.Reach("not-struck")
	}
	spent := v.ZEq(v.SqlCount(raw, "proofs", "y", ys[0]), v.ZU(1))
	pend := v.ZEq(v.SqlCount(raw, "pending_proofs", "y", ys[0]), v.ZU(1))
	st, gerr := env.db.GetMeltQuote(q.Id)
	v.Assume(gerr == nil)
	v.Assert(v.Implies(env.ln.anySucceeded(), v.Or(spent, pend)), "C07 S1 poll: inputs of a succeeded payment are never released by a crash during resolution")
	v.Assert(v.Implies(pend, st.State == nut05.Pending), "C07 A3 poll: inputs still locked => the quote is still PENDING (a later poll can resolve it)")
	v.Assert(v.Implies(v.And(v.Not(spent), v.Not(pend)), st.State == nut05.Unpaid), "C07 A3 poll: released inputs belong to an UNPAID quote")
}

func VHarnessCrashPoll() { vhCrashPoll(false) }
func VHarnessFaultPoll() { vhCrashPoll(true) }

// keyset rotation struck at any point: the keysets table keeps exactly one active keyset and loses none
func vhCrashRotate(fault bool) {
	env := vhNewEnv(1)
	env.hook()
	seed := []byte("0123456789abcdef0123456789abcdef")
	v.Assume(env.db.SaveSeed(seed) == nil)
	master, merr := hdkeychain.NewMaster(seed, &chaincfg.MainNetParams)
	v.Assume(merr == nil)
	ks0, kerr := crypto.GenerateKeyset(master, 0, 100, true)
	v.Assume(kerr == nil)
	env.m.keysets = map[string]crypto.MintKeyset{ks0.Id: *ks0}
	env.m.activeKeyset = ks0
	v.Assume(env.db.SaveKeyset(storage.DBKeyset{Id: ks0.Id, Unit: "sat", Active: true, Seed: hex.EncodeToString(seed), DerivationPathIdx: 0, InputFeePpk: ks0.InputFeePpk}) == nil)
	newfee := uint(v.U64("newfee") % 4096)
	var rotated *nut02.Keyset
	var rerr error
	hit := env.strike(fault, func() { rotated, rerr = env.m.RotateKeyset(newfee) })
	if hit {
		v.Reach("struck")
	} else {
		v.Reach("not-struck")
	}
	rows, err := env.db.GetKeysets()
	v.Assume(err == nil)
	active := 0
	old := false
	for _, r := range rows {
		if r.Active {
			active++
		}
		if r.Id == ks0.Id && r.DerivationPathIdx == 0 {
			old = true
		}
	}
	v.Reach(fmt.Sprintf("rows=%d active=%d hit=%v", len(rows), active, hit))
	v.Assert(active == 1, "C07 S3 rotation: exactly one keyset is active in the database after a crash / fault at any point")
	v.Assert(old, "C07 S3 rotation: the previous keyset is still stored with its id and index")
	// what a restart rebuilds from the database is what the mint served: every stored row carries the fee, index and
	// active flag of the keyset it stands for (LoadMint derives the keys from seed + index and takes the rest from the row)
	for _, r := range rows {
		if r.Id == ks0.Id {
			v.Assert(r.InputFeePpk == ks0.InputFeePpk, "C07 rotation: the previous keyset keeps its input fee in the database")
		}
		if rotated != nil && rerr == nil && r.Id == rotated.Id {
			v.Assert(v.And(r.InputFeePpk == newfee, r.Active, r.DerivationPathIdx == 1), "C07 rotation: the keyset a completed rotation returned is stored with the fee, index and active flag it was announced with (a restart rebuilds the same keyset)")
		}
	}
}

func VHarnessCrashRotate() { vhCrashRotate(false) }
func VHarnessFaultRotate() { vhCrashRotate(true) }

// melt settled internally (a mint quote of this mint carries the same invoice): struck at any point
func vhCrashMeltInternal(fault bool, c03only bool) {
	env := vhNewEnv(1)
	v.Assume(env.m.keysets[env.ids[0]].InputFeePpk == 0)
	env.hook()
	raw := env.db.VhRaw()
	mq := storage.MintQuote{Id: "mintq1", Amount: vhDenoms[0], PaymentRequest: "lnbc-mq1", PaymentHash: "ph-mq1", State: nut04.Unpaid, Expiry: 1}
	v.Assume(env.db.SaveMintQuote(mq) == nil)
	q := storage.MeltQuote{Id: "mq1", InvoiceRequest: "lnbc-mq1", PaymentHash: "ph-mq1", Amount: vhDenoms[0], FeeReserve: 0, State: nut05.Unpaid, Expiry: 1}
	v.Assume(env.db.SaveMeltQuote(q) == nil)
	in, _, ys := env.balancedRequest()
	req := nut05.PostMeltBolt11Request{Quote: q.Id, Inputs: in}
	var res storage.MeltQuote
	var err error
	returned := false
	hit := env.strike(fault, func() { res, err = env.m.MeltTokens(context.Background(), req); returned = true })
	if hit {
		v.Reach("struck")
	} else {
		v.Reach("not-struck")
	}
	spent := v.ZEq(v.SqlCount(raw, "proofs", "y", ys[0]), v.ZU(1))
	pend := v.ZEq(v.SqlCount(raw, "pending_proofs", "y", ys[0]), v.ZU(1))
	st, gerr := env.db.GetMeltQuote(q.Id)
	v.Assume(gerr == nil)
	mst, merr := env.db.GetMintQuote(mq.Id)
	v.Assume(merr == nil)
	if !hit {
		v.Assert(len(env.ln.Pays) == 0, "C02 a melt of the mint's own invoice is settled internally, nothing is paid over Lightning")
	}
	credited := mst.State == nut04.Paid
	v.Assert(v.Implies(credited, st.State == nut05.Paid), "C03/C07 S2 internal settlement: the mint quote is marked PAID only once the melt that pays it is recorded PAID")
	v.Assert(v.Implies(credited, v.Or(spent, pend)), "C03/C07 S2 internal settlement: the mint quote is PAID only while the melt's inputs are consumed (spent or still locked)")
	if !c03only {
		internal := len(env.ln.Pays) == 0 // (a storage error on the internal-quote lookup makes the mint pay its own invoice over Lightning: allowed)
		v.Assert(v.Implies(v.And(internal, st.State == nut05.Paid), credited), "C07 A3 internal settlement: a melt recorded PAID has credited the mint quote it pays")
		v.Assert(v.Implies(v.And(internal, st.State == nut05.Paid), v.And(spent, v.Not(pend))), "C07 A3 internal settlement: the inputs of a melt recorded PAID are spent")
		v.Assert(v.Implies(v.And(v.Not(spent), v.Not(pend), len(env.ln.Pays) == 0), st.State == nut05.Unpaid), "C07 S1 internal settlement: free inputs belong to an UNPAID melt quote")
	}
	if returned && err == nil && res.State == nut05.Paid {
		v.Reach("settled-internally")
		if !c03only {
			v.Assert(v.And(spent, v.Or(credited, len(env.ln.Pays) > 0)), "C07 D1 internal settlement: a PAID response is durable (inputs spent, mint quote PAID)")
		}
	}
	// what the credited quote can be used for afterwards: issuance only if the melt's value is gone for good
	if credited {
		out := cashu.BlindedMessages{env.output("out1", 0, 0)}
		_, ierr := env.m.MintTokens(nut04.PostMintBolt11Request{Quote: mq.Id, Outputs: out})
		v.Assert(v.Implies(ierr == nil, v.Or(spent, pend)), "C03 the internally settled quote issues only against inputs that are consumed")
	}
}

func VHarnessCrashMeltInternal()    { vhCrashMeltInternal(false, false) }
func VHarnessFaultMeltInternal()    { vhCrashMeltInternal(true, false) }
func VHarnessFaultMeltInternalC03() { vhCrashMeltInternal(true, true) }
