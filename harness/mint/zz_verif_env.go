package mint

// Harness environment for package mint, executed both by the symbolic engine and natively (replay):
// a Mint built from unexported fields over the model / real SQLite database, symbolic keysets, and a
// scripted Lightning backend with a ghost ledger (DESIGN.md 4.4).

import (
	"context"
	"crypto/sha256"
	"encoding/hex"
	"errors"
	"fmt"
	"io"
	"log/slog"
	"time"

	"github.com/btcsuite/btcd/chaincfg"
	"github.com/decred/dcrd/dcrec/secp256k1/v4"
	"github.com/decred/dcrd/dcrec/secp256k1/v4/ecdsa"
	"github.com/elnosh/gonuts/cashu"
	"github.com/elnosh/gonuts/crypto"
	"github.com/elnosh/gonuts/mint/lightning"
	"github.com/elnosh/gonuts/mint/pubsub"
	"github.com/elnosh/gonuts/mint/storage"
	"github.com/elnosh/gonuts/mint/storage/sqlite"
	v "github.com/elnosh/gonuts/verifrt"
	"github.com/lightningnetwork/lnd/lnwire"
	"github.com/lightningnetwork/lnd/zpay32"
)

var vhKeysetIds = []string{"00a1a1a1a1a1a1a1", "00b2b2b2b2b2b2b2", "00c3c3c3c3c3c3c3"}

// denominations of the harness keysets (stated bound: the 60-entry tables are cut to these keys)
var vhDenoms = []uint64{1, 2, 1 << 63}

type vhPay struct {
	Request    string
	AmountMsat uint64 // 0 for SendPayment (full invoice amount)
	MaxFee     uint64
	Partial    bool
	// an earlier payment was still open (not answered by a definitive failure) when this one was issued
	PriorOpen bool
}

type vhFeeQ struct{ Amount, Reserve uint64 }

type vhAnswer struct {
	Kind     string // "pay" | "status"
	Status   lightning.State
	ErrKind  int // 0 nil, 1 generic error, 2 lightning.OutgoingPaymentNotFound
	Preimage string
}

// vhLN is the scripted Lightning backend: every answer is a fresh nondeterministic record, every
// call is recorded in the ledger.
type vhLN struct {
	Pays        []vhPay
	Answers     []vhAnswer
	FeeQ        []vhFeeQ
	Created     int
	StatusQ     int
	InvoiceQ    int
	InvoiceErrs int
	// the watcher goroutine RequestMintQuote starts is not part of the schedule (engine: go statements ignored)
	QuietWatcher bool
	WatcherLive  bool
	MaxScript    int
}

func (l *vhLN) ConnectionStatus() error { return nil }
func (l *vhLN) CreateInvoice(amount uint64) (lightning.Invoice, error) {
	v.Yield("Client.CreateInvoice")
	if v.Int("ln.create.err", 0, 1) == 1 {
		return lightning.Invoice{}, errors.New("scripted backend: cannot create invoice")
	}
	l.Created++
	return lightning.Invoice{PaymentRequest: fmt.Sprintf("lnbc-created-%d", l.Created), PaymentHash: fmt.Sprintf("hash-created-%d", l.Created),
		Amount: amount, Expiry: 3600}, nil
}
func (l *vhLN) InvoiceStatus(hash string) (lightning.Invoice, error) {
	v.Yield("Client.InvoiceStatus")
	l.InvoiceQ++
	if v.Int("ln.invoice.err", 0, 1) == 1 {
		l.InvoiceErrs++
		return lightning.Invoice{}, errors.New("scripted backend: invoice lookup failed")
	}
	return lightning.Invoice{PaymentHash: hash, Settled: v.Bool("ln.invoice.settled"), Preimage: v.Str("ln.invoice.preimage")}, nil
}
func (l *vhLN) answer(kind string) (lightning.PaymentStatus, error) {
	if l.MaxScript > 0 && len(l.Answers) >= l.MaxScript {
		v.Assume(false) // stated bound on the script length
	}
	a := vhAnswer{Kind: kind}
	st := v.U64("ln." + kind + ".status") // symbolic: the code under test forks on it only where it looks
	v.Assume(st <= 2)
	a.Status = lightning.State(st)
	nerr := 1
	if kind == "status" {
		nerr = 2
	}
	a.ErrKind = v.Int("ln."+kind+".err", 0, nerr)
	a.Preimage = v.Str("ln." + kind + ".preimage")
	// contract of a backend: final outcomes are final (no definitive failure after a reported success and vice versa)
	okNow := v.And(a.Status == lightning.Succeeded, a.ErrKind == 0)
	failNow := false
	if kind == "status" {
		failNow = v.Or(v.And(a.Status == lightning.Failed, a.ErrKind == 0), a.ErrKind == 2)
	}
	v.Assume(v.Not(v.And(l.anySucceeded(), failNow)))
	v.Assume(v.Not(v.And(l.definitiveFailure(), okNow)))
	l.Answers = append(l.Answers, a)
	ps := lightning.PaymentStatus{Preimage: a.Preimage, PaymentStatus: a.Status}
	switch a.ErrKind {
	case 1:
		return ps, errors.New("scripted backend: transport error")
	case 2:
		return ps, lightning.OutgoingPaymentNotFound
	}
	return ps, nil
}
func (l *vhLN) SendPayment(ctx context.Context, request string, maxFee uint64) (lightning.PaymentStatus, error) {
	v.Yield("Client.SendPayment")
	l.Pays = append(l.Pays, vhPay{Request: request, MaxFee: maxFee, PriorOpen: v.And(len(l.Pays) > 0, v.Not(l.definitiveFailure()))})
	return l.answer("pay")
}
func (l *vhLN) PayPartialAmount(ctx context.Context, request string, amountMsat uint64, maxFee uint64) (lightning.PaymentStatus, error) {
	v.Yield("Client.PayPartialAmount")
	l.Pays = append(l.Pays, vhPay{Request: request, AmountMsat: amountMsat, MaxFee: maxFee, Partial: true, PriorOpen: v.And(len(l.Pays) > 0, v.Not(l.definitiveFailure()))})
	return l.answer("pay")
}
func (l *vhLN) OutgoingPaymentStatus(ctx context.Context, hash string) (lightning.PaymentStatus, error) {
	v.Yield("Client.OutgoingPaymentStatus")
	l.StatusQ++
	return l.answer("status")
}

// FeeReserve: an arbitrary but deterministic function of the amount (uninterpreted function), recorded
func (l *vhLN) FeeReserve(amount uint64) uint64 {
	v.Yield("Client.FeeReserve")
	r := v.UF64("ln.feereserve", amount)
	l.FeeQ = append(l.FeeQ, vhFeeQ{Amount: amount, Reserve: r})
	return r
}
func (l *vhLN) SubscribeInvoice(ctx context.Context, paymentHash string) (lightning.InvoiceSubscriptionClient, error) {
	if !l.QuietWatcher {
		v.Yield("Client.SubscribeInvoice")
	}
	return &vhSub{hash: paymentHash, live: l.WatcherLive}, nil
}

type vhSub struct {
	hash string
	live bool
}

func (s *vhSub) Recv() (lightning.Invoice, error) {
	if !s.live {
		select {} // the background watcher started by RequestMintQuote stays silent unless a harness schedules it
	}
	if v.Int("ln.sub.err", 0, 1) == 1 {
		return lightning.Invoice{}, errors.New("scripted backend: subscription closed")
	}
	return lightning.Invoice{PaymentHash: s.hash, Settled: true}, nil
}

// succeeded reports whether some consumed answer was (Succeeded, nil)
func (l *vhLN) anySucceeded() bool {
	r := false
	for _, a := range l.Answers {
		r = v.Or(r, v.And(a.Status == lightning.Succeeded, a.ErrKind == 0))
	}
	return r
}

// definitiveFailure: a status look-up answered (Failed, nil) or "no such payment"
func (l *vhLN) definitiveFailure() bool {
	r := false
	for _, a := range l.Answers {
		if a.Kind == "status" {
			r = v.Or(r, v.And(a.Status == lightning.Failed, a.ErrKind == 0), a.ErrKind == 2)
		}
	}
	return r
}

type vhEnv struct {
	m   *Mint
	db  *sqlite.SQLiteDB
	ln  *vhLN
	ids []string
}

func vhKeyset(id string, idx uint32, ppk uint, active bool) crypto.MintKeyset {
	keys := map[uint64]crypto.KeyPair{}
	for _, a := range vhDenoms {
		k := v.Priv(fmt.Sprintf("key.%s.%d", id, a))
		keys[a] = crypto.KeyPair{PrivateKey: k, PublicKey: k.PubKey()}
	}
	return crypto.MintKeyset{Id: id, Unit: "sat", Active: active, DerivationPathIdx: idx, Keys: keys, InputFeePpk: ppk}
}

// vhNewEnv builds a mint with nKeysets keysets (the first one active), symbolic input fees < 2^32.
func vhNewEnv(nKeysets int) *vhEnv {
	db := sqlite.VhNewDB()
	ln := &vhLN{}
	m := &Mint{db: db, keysets: map[string]crypto.MintKeyset{}, lightningClient: ln, publisher: pubsub.NewPubSub()}
	m.ctx, m.cancel = context.WithCancel(context.Background())
	m.logger = slog.New(slog.NewTextHandler(io.Discard, nil))
	env := &vhEnv{m: m, db: db, ln: ln}
	for i := 0; i < nKeysets; i++ {
		ppk := v.U64(fmt.Sprintf("ppk.%d", i))
		v.Assume(ppk < 1<<32)
		ks := vhKeyset(vhKeysetIds[i], uint32(i), uint(ppk), i == 0)
		m.keysets[ks.Id] = ks
		if i == 0 {
			a := ks
			m.activeKeyset = &a
		}
		env.ids = append(env.ids, ks.Id)
	}
	return env
}

// restart models a process restart: a fresh Mint object over the surviving database and backend
func (env *vhEnv) restart() *Mint {
	m := &Mint{db: env.db, keysets: env.m.keysets, activeKeyset: env.m.activeKeyset, lightningClient: env.ln,
		publisher: pubsub.NewPubSub(), limits: env.m.limits, mppEnabled: env.m.mppEnabled, logger: env.m.logger}
	m.ctx, m.cancel = context.WithCancel(context.Background())
	hooked := env.m.db != storage.MintDB(env.db)
	env.m = m
	if hooked {
		env.hook()
	}
	return m
}

// vhProof: an input with every field free (an arbitrary, possibly forged, proof)
func vhFreeProof(tag string) cashu.Proof {
	return cashu.Proof{Amount: v.U64(tag + ".amount"), Id: v.Str(tag + ".id"), Secret: v.Str(tag + ".secret"), C: v.Str(tag + ".C"),
		Witness: v.Str(tag + ".witness")}
}

// genuineProof: a proof honestly signed by this mint over an arbitrary plain secret; keyset and
// denomination are selected by symbolic indices (no forking)
func (env *vhEnv) genuineProof(tag string) cashu.Proof {
	ks, d := v.U64(tag+".ks"), v.U64(tag+".d")
	v.Assume(ks < uint64(len(env.ids)))
	v.Assume(d < uint64(len(vhDenoms)))
	var keys []*secp256k1.PrivateKey
	for _, id := range env.ids {
		for _, a := range vhDenoms {
			keys = append(keys, env.m.keysets[id].Keys[a].PrivateKey)
		}
	}
	id := v.PickStr(ks, env.ids...)
	amount := v.PickU64(d, vhDenoms...)
	k := v.PickPriv(ks*uint64(len(vhDenoms))+d, keys...)
	secret := v.Str(tag + ".secret")
	Y, err := crypto.HashToCurve([]byte(secret))
	v.Assume(err == nil)
	C := vhMul(k, Y)
	return cashu.Proof{Amount: amount, Id: id, Secret: secret, C: hex.EncodeToString(C.SerializeCompressed()), Witness: v.Str(tag + ".witness")}
}

// anyProof: genuine, or arbitrary with the stated unforgeability assumption (an arbitrary C is not by
// accident the valid signature of its secret under one of the mint's keys)
func (env *vhEnv) anyProof(tag string) cashu.Proof {
	if v.Int(tag+".kind", 0, 1) == 0 {
		return env.genuineProof(tag)
	}
	p := vhFreeProof(tag)
	if C, ok := vhParsePoint(p.C); ok {
		Y, err := crypto.HashToCurve([]byte(p.Secret))
		v.Assume(err == nil)
		notValid := true
		for _, id := range env.ids {
			for _, a := range vhDenoms {
				notValid = v.And(notValid, v.Not(v.SamePub(C, vhMul(env.m.keysets[id].Keys[a].PrivateKey, Y))))
			}
		}
		v.Assume(notValid)
	}
	return p
}

// vhOutput: a well-formed blinded message for the given keyset / denomination (B_ = b*G for arbitrary b)
func (env *vhEnv) output(tag string, ks int, d int) cashu.BlindedMessage {
	b := v.Priv(tag + ".b")
	return cashu.BlindedMessage{Amount: vhDenoms[d], Id: env.ids[ks], B_: hex.EncodeToString(b.PubKey().SerializeCompressed())}
}

func vhFreeOutput(tag string) cashu.BlindedMessage {
	return cashu.BlindedMessage{Amount: v.U64(tag + ".amount"), Id: v.Str(tag + ".id"), B_: v.Str(tag + ".B_"), Witness: v.Str(tag + ".witness")}
}

func vhY(secret string) string {
	Y, err := crypto.HashToCurve([]byte(secret))
	v.Assume(err == nil)
	return hex.EncodeToString(Y.SerializeCompressed())
}

func vhInvoiceHash(seed string) string {
	h := sha256.Sum256([]byte(seed))
	return hex.EncodeToString(h[:])
}

// vhInvoice: a real BOLT11 invoice of msat millisatoshi (0 = no amount) whose payment hash is sha256(seed)
func vhInvoice(msat uint64, seed string) string {
	if !v.Native() {
		return vhInvoiceSym(msat, vhInvoiceHash(seed))
	}
	ph := sha256.Sum256([]byte(seed))
	opts := []func(*zpay32.Invoice){zpay32.Description("verif")}
	if msat > 0 {
		opts = append(opts, zpay32.Amount(lnwire.MilliSatoshi(msat)))
	}
	inv, err := zpay32.NewInvoice(&chaincfg.SigNetParams, ph, time.Now(), opts...)
	if err != nil {
		v.Assume(false)
	}
	s, err := inv.Encode(zpay32.MessageSigner{SignCompact: func(msg []byte) ([]byte, error) {
		key, _ := secp256k1.GeneratePrivateKey()
		return ecdsa.SignCompact(key, msg, true), nil
	}})
	if err != nil {
		v.Assume(false)
	}
	return s
}

// intercepted by the engine: a fresh string that decodepay.Decodepay maps back to (msat, hash)
func vhInvoiceSym(msat uint64, hash string) string { return "" }
