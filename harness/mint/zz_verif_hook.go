package mint

import (
	"errors"

	"github.com/elnosh/gonuts/cashu"
	"github.com/elnosh/gonuts/cashu/nuts/nut04"
	"github.com/elnosh/gonuts/cashu/nuts/nut05"
	"github.com/elnosh/gonuts/mint/storage"
	v "github.com/elnosh/gonuts/verifrt"
)

// vhHookDB marks every storage call as a scheduling / crash / fault point when a harness runs natively.
// (The symbolic engine needs no wrapper: it treats every invoke on storage.MintDB as such a point.)
type vhHookDB struct{ in storage.MintDB }

var vhInjected = errors.New("injected storage fault")

func (env *vhEnv) hook() {
	if v.Native() {
		env.m.db = &vhHookDB{in: env.db}
	}
}

func (h *vhHookDB) SaveSeed(s []byte) error {
	if v.Yield("MintDB.SaveSeed") {
		return vhInjected
	}
	return h.in.SaveSeed(s)
}
func (h *vhHookDB) GetSeed() ([]byte, error) {
	if v.Yield("MintDB.GetSeed") {
		return nil, vhInjected
	}
	return h.in.GetSeed()
}
func (h *vhHookDB) SaveKeyset(k storage.DBKeyset) error {
	if v.Yield("MintDB.SaveKeyset") {
		return vhInjected
	}
	return h.in.SaveKeyset(k)
}
func (h *vhHookDB) GetKeysets() ([]storage.DBKeyset, error) {
	if v.Yield("MintDB.GetKeysets") {
		return nil, vhInjected
	}
	return h.in.GetKeysets()
}
func (h *vhHookDB) UpdateKeysetActive(id string, a bool) error {
	if v.Yield("MintDB.UpdateKeysetActive") {
		return vhInjected
	}
	return h.in.UpdateKeysetActive(id, a)
}
func (h *vhHookDB) SaveProofs(p cashu.Proofs) error {
	if v.Yield("MintDB.SaveProofs") {
		return vhInjected
	}
	return h.in.SaveProofs(p)
}
func (h *vhHookDB) GetProofsUsed(ys []string) ([]storage.DBProof, error) {
	if v.Yield("MintDB.GetProofsUsed") {
		return nil, vhInjected
	}
	return h.in.GetProofsUsed(ys)
}
func (h *vhHookDB) AddPendingProofs(p cashu.Proofs, q string) error {
	if v.Yield("MintDB.AddPendingProofs") {
		return vhInjected
	}
	return h.in.AddPendingProofs(p, q)
}
func (h *vhHookDB) GetPendingProofs(ys []string) ([]storage.DBProof, error) {
	if v.Yield("MintDB.GetPendingProofs") {
		return nil, vhInjected
	}
	return h.in.GetPendingProofs(ys)
}
func (h *vhHookDB) GetPendingProofsByQuote(q string) ([]storage.DBProof, error) {
	if v.Yield("MintDB.GetPendingProofsByQuote") {
		return nil, vhInjected
	}
	return h.in.GetPendingProofsByQuote(q)
}
func (h *vhHookDB) RemovePendingProofs(ys []string) error {
	if v.Yield("MintDB.RemovePendingProofs") {
		return vhInjected
	}
	return h.in.RemovePendingProofs(ys)
}
func (h *vhHookDB) SaveMintQuote(q storage.MintQuote) error {
	if v.Yield("MintDB.SaveMintQuote") {
		return vhInjected
	}
	return h.in.SaveMintQuote(q)
}
func (h *vhHookDB) GetMintQuote(id string) (storage.MintQuote, error) {
	if v.Yield("MintDB.GetMintQuote") {
		return storage.MintQuote{}, vhInjected
	}
	return h.in.GetMintQuote(id)
}
func (h *vhHookDB) GetMintQuoteByPaymentHash(hh string) (storage.MintQuote, error) {
	if v.Yield("MintDB.GetMintQuoteByPaymentHash") {
		return storage.MintQuote{}, vhInjected
	}
	return h.in.GetMintQuoteByPaymentHash(hh)
}
func (h *vhHookDB) UpdateMintQuoteState(id string, s nut04.State) error {
	if v.Yield("MintDB.UpdateMintQuoteState") {
		return vhInjected
	}
	return h.in.UpdateMintQuoteState(id, s)
}
func (h *vhHookDB) SaveMeltQuote(q storage.MeltQuote) error {
	if v.Yield("MintDB.SaveMeltQuote") {
		return vhInjected
	}
	return h.in.SaveMeltQuote(q)
}
func (h *vhHookDB) GetMeltQuote(id string) (storage.MeltQuote, error) {
	if v.Yield("MintDB.GetMeltQuote") {
		return storage.MeltQuote{}, vhInjected
	}
	return h.in.GetMeltQuote(id)
}
func (h *vhHookDB) GetMeltQuoteByPaymentRequest(r string) (*storage.MeltQuote, error) {
	if v.Yield("MintDB.GetMeltQuoteByPaymentRequest") {
		return nil, vhInjected
	}
	return h.in.GetMeltQuoteByPaymentRequest(r)
}
func (h *vhHookDB) UpdateMeltQuote(id, pre string, s nut05.State) error {
	if v.Yield("MintDB.UpdateMeltQuote") {
		return vhInjected
	}
	return h.in.UpdateMeltQuote(id, pre, s)
}
func (h *vhHookDB) SaveBlindSignatures(bs []string, sigs cashu.BlindedSignatures) error {
	if v.Yield("MintDB.SaveBlindSignatures") {
		return vhInjected
	}
	return h.in.SaveBlindSignatures(bs, sigs)
}
func (h *vhHookDB) GetBlindSignature(b string) (cashu.BlindedSignature, error) {
	if v.Yield("MintDB.GetBlindSignature") {
		return cashu.BlindedSignature{}, vhInjected
	}
	return h.in.GetBlindSignature(b)
}
func (h *vhHookDB) GetBlindSignatures(bs []string) (cashu.BlindedSignatures, error) {
	if v.Yield("MintDB.GetBlindSignatures") {
		return nil, vhInjected
	}
	return h.in.GetBlindSignatures(bs)
}
func (h *vhHookDB) GetIssuedEcash() (map[string]uint64, error) {
	if v.Yield("MintDB.GetIssuedEcash") {
		return nil, vhInjected
	}
	return h.in.GetIssuedEcash()
}
func (h *vhHookDB) GetRedeemedEcash() (map[string]uint64, error) {
	if v.Yield("MintDB.GetRedeemedEcash") {
		return nil, vhInjected
	}
	return h.in.GetRedeemedEcash()
}
func (h *vhHookDB) Close() error { return h.in.Close() }
