package mint

import (
	"encoding/hex"
	"fmt"

	"github.com/decred/dcrd/dcrec/secp256k1/v4"
	"github.com/elnosh/gonuts/cashu"
	"github.com/elnosh/gonuts/crypto"
	v "github.com/elnosh/gonuts/verifrt"
)

func (env *vhEnv) allKeys() []*secp256k1.PrivateKey {
	var keys []*secp256k1.PrivateKey
	for _, id := range env.ids {
		for _, a := range vhDenoms {
			keys = append(keys, env.m.keysets[id].Keys[a].PrivateKey)
		}
	}
	return keys
}

// C04: verifyProofs accepts exactly the genuine proofs: soundness for arbitrary proofs (under the stated unforgeability
// assumption), completeness for every keyset (active or not), rejection of every single-field mutation of a genuine proof.
func VHarnessVerifyProofs() {
	env := vhNewEnv(2)
	m := env.m
	keys := env.allKeys()
	for i := range keys { // stated: distinct denominations / keysets have distinct private keys
		for j := 0; j < i; j++ {
			v.Assume(v.Not(v.SamePriv(keys[i], keys[j])))
		}
	}
	kind := v.Int("case", 0, 9)
	var p cashu.Proof
	expectOK := false
	switch kind {
	case 0: // genuine
		p = env.genuineProof("p")
		expectOK = len(p.Secret) <= cashu.MAX_SECRET_LENGTH
	case 1: // arbitrary
		p = env.anyProofFree("p")
	default:
		g := env.genuineProof("p")
		v.Assume(len(g.Secret) <= cashu.MAX_SECRET_LENGTH)
		p = g
		switch kind {
		case 2: // amount changed to another denomination, or to a value that is no key at all
			p.Amount = v.U64("mut.amount")
			v.Assume(p.Amount != g.Amount)
		case 3: // keyset id changed to the other keyset or to an unknown one
			p.Id = v.Str("mut.id")
			v.Assume(p.Id != g.Id)
		case 4: // C replaced by the C of another genuine proof
			o := env.genuineProof("other")
			v.Assume(o.Secret != g.Secret)
			oC, _ := vhParsePoint(o.C)
			gC, _ := vhParsePoint(g.C)
			v.Assume(v.Not(v.SamePub(oC, gC))) // stated: signatures on different secrets are different points (no known dlog relation between hash-to-curve outputs)
			p.C = o.C
		case 5: // C replaced by another point / arbitrary text
			p.C = v.Str("mut.C")
			v.Assume(p.C != g.C)
			if C, ok := vhParsePoint(p.C); ok { // other encodings of the same point are the same proof
				gC, _ := vhParsePoint(g.C)
				v.Assume(v.Not(v.SamePub(C, gC)))
			}
		case 6: // secret edited
			p.Secret = v.Str("mut.secret")
			v.Assume(p.Secret != g.Secret)
		case 8: // the parity bit of the compressed C flipped: the negated point (same x coordinate)
			gC, ok := vhParsePoint(g.C)
			v.Assume(ok)
			p.C = hex.EncodeToString(v.NegPub(gC).SerializeCompressed())
		case 9: // the amount mutation again, behind a genuine first input (the gate must hold for every position of a request)
			p.Amount = v.U64("mut.amount")
			v.Assume(p.Amount != g.Amount)
		case 7: // oversize secret (a genuine signature on it)
			p = env.genuineProof("big")
			v.Assume(len(p.Secret) > cashu.MAX_SECRET_LENGTH)
		}
	}
	inputs, Ys := cashu.Proofs{p}, []string{vhY(p.Secret)}
	if kind == 9 {
		first := env.genuineProof("first")
		v.Assume(len(first.Secret) <= cashu.MAX_SECRET_LENGTH)
		v.Assume(first.Secret != p.Secret)
		inputs, Ys = cashu.Proofs{first, p}, []string{vhY(first.Secret), vhY(p.Secret)}
	}
	err := m.verifyProofs(inputs, Ys)
	if kind == 0 {
		v.Assert((err == nil) == expectOK, "C04 every unspent proof honestly signed by any keyset of this mint (active or inactive) is accepted")
		v.Reach("genuine")
	} else {
		v.Assert(err != nil, fmt.Sprintf("C04 forged or mutated proof is rejected (case %d: 1 arbitrary, 2 amount, 3 keyset id, 4 C of another proof, 5 other C, 6 secret, 7 oversize secret, 8 parity bit of C flipped, 9 amount behind a genuine first input)", kind))
		v.Reach("mutated")
	}
	if err == nil {
		// soundness in one formula: accepted => C = k(id, amount) * hash_to_curve(secret)
		ks, okKs := m.keysets[p.Id]
		v.Assert(okKs, "C04 accepted => the keyset id is one of this mint's")
		if okKs {
			kp, okA := ks.Keys[p.Amount]
			v.Assert(okA, "C04 accepted => the amount is a denomination of that keyset")
			C, okC := vhParsePoint(p.C)
			v.Assert(okC, "C04 accepted => C is a well-formed point")
			if okA && okC {
				Y, _ := crypto.HashToCurve([]byte(p.Secret))
				v.Assert(v.SamePub(C, vhMul(kp.PrivateKey, Y)), "C04 accepted => C = k * hash_to_curve(secret) for the key of exactly the claimed amount and keyset")
				v.Assert(len(p.Secret) <= cashu.MAX_SECRET_LENGTH, "C04 accepted => secret is at most 512 bytes")
			}
		}
	}
}

func (env *vhEnv) anyProofFree(tag string) cashu.Proof {
	p := vhFreeProof(tag)
	if C, ok := vhParsePoint(p.C); ok {
		Y, err := crypto.HashToCurve([]byte(p.Secret))
		v.Assume(err == nil)
		notValid := true
		for _, k := range env.allKeys() {
			notValid = v.And(notValid, v.Not(v.SamePub(C, vhMul(k, Y))))
		}
		v.Assume(notValid)
	}
	return p
}

// C09: signatures are only produced on the active keyset, with the key of exactly the requested amount; fees are charged per
// proof according to the proof's own keyset.
func VHarnessSignAndFees() {
	env := vhNewEnv(2)
	m := env.m
	nOut := v.Int("nOut", 1, 2)
	msgs := make(cashu.BlindedMessages, nOut)
	for i := range msgs {
		msgs[i] = vhFreeOutput(fmt.Sprintf("out%d", i))
	}
	sigs, err := m.signBlindedMessages(msgs)
	if err == nil {
		v.Assert(len(sigs) == nOut, "C09 one signature per output")
		for i, msg := range msgs {
			if i >= len(sigs) {
				break
			}
			v.Assert(msg.Id == m.activeKeyset.Id, "C09 new signatures are only produced for requests naming the active keyset (every output of the request)")
			kp, ok := m.activeKeyset.Keys[msg.Amount]
			v.Assert(ok, "C09 signed amount is a denomination of the active keyset")
			B_, okB := vhParsePoint(msg.B_)
			C_, okC := vhParsePoint(sigs[i].C_)
			if ok && okB && okC {
				v.Assert(v.And(v.SamePub(C_, vhMul(kp.PrivateKey, B_)), sigs[i].Amount == msg.Amount, sigs[i].Id == m.activeKeyset.Id),
					"C09 the signature is k_active(amount) * B_ and carries the active keyset id and the amount")
			}
		}
		v.Reach("signed")
	} else {
		v.Reach("refused")
		allOk := true
		for _, msg := range msgs {
			_, okB := vhParsePoint(msg.B_)
			_, isKey := m.activeKeyset.Keys[msg.Amount]
			allOk = v.And(allOk, msg.Id == m.activeKeyset.Id, isKey, okB)
		}
		v.Assert(v.Not(allOk), "C09 a well-formed request on the active keyset is signed")
	}
	// fees: input_fee_ppk of each keyset drawn from the property's configurations
	for i, id := range env.ids {
		ks := m.keysets[id]
		ks.InputFeePpk = uint(v.PickU64(v.U64(fmt.Sprintf("feecfg.%d", i)), 0, 1, 100, 999, 1000, 2500))
		m.keysets[id] = ks
	}
	n := v.Int("nInputs", 0, 3)
	in := make(cashu.Proofs, n)
	sum := v.ZU(0)
	for i := range in {
		in[i].Id = v.PickStr(v.U64(fmt.Sprintf("in%d.ks", i)), env.ids...)
		sum = v.ZAdd(sum, v.ZU(uint64(m.keysets[in[i].Id].InputFeePpk)))
	}
	fee := m.TransactionFees(in)
	f1000 := v.ZMul(v.ZU(uint64(fee)), v.ZU(1000))
	v.Assert(v.And(v.ZLe(sum, f1000), v.ZLt(f1000, v.ZAdd(sum, v.ZU(1000)))), "C09 input fee = ceil(sum of each proof's own keyset input_fee_ppk / 1000)")
}

// C09: restarts with and without rotation and a runtime rotation: every earlier keyset reappears with the same id, index,
// fee and keys; exactly one keyset is active; the new keyset continues the index sequence.
func VHarnessLoadMint() {
	dir := v.TempDir()
	fee0, fee1, fee2 := uint(v.U64("fee0")%4096), uint(v.U64("fee1")%4096), uint(v.U64("fee2")%4096)
	cfg := Config{MintPath: dir, InputFeePpk: fee0, LightningClient: &vhLN{}, LogLevel: Disable}
	m1, err := LoadMint(cfg)
	v.Assume(err == nil)
	first := *m1.activeKeyset
	v.Assert(v.And(len(m1.keysets) == 1, first.Active, first.DerivationPathIdx == 0, first.InputFeePpk == fee0), "C09 a fresh mint has one active keyset at index 0 with the configured fee")
	m1.db.Close()

	rotate := v.Int("restart.rotate", 0, 1) == 1
	cfg2 := cfg
	cfg2.RotateKeyset = rotate
	cfg2.InputFeePpk = fee1
	m2, err := LoadMint(cfg2)
	v.Assert(err == nil, "C09 restart succeeds")
	if err != nil {
		return
	}
	vhSameKeyset(m2, first, "restart")
	if rotate {
		a := m2.activeKeyset
		v.Assert(v.And(len(m2.keysets) == 2, a.Id != first.Id, a.DerivationPathIdx == 1, a.InputFeePpk == fee1, a.Active, !m2.keysets[first.Id].Active),
			"C09 restart with rotation adds keyset index+1 with the new fee, activates it and deactivates the old one")
	} else {
		v.Assert(v.And(len(m2.keysets) == 1, m2.activeKeyset.Id == first.Id, m2.activeKeyset.InputFeePpk == fee0), "C09 restart without rotation changes nothing (the configured fee does not apply to an existing keyset)")
	}
	second := *m2.activeKeyset
	// runtime rotation
	_, rerr := m2.RotateKeyset(fee2)
	v.Assert(rerr == nil, "C09 runtime rotation succeeds")
	third := *m2.activeKeyset
	m2.db.Close()
	m3, err := LoadMint(cfg)
	v.Assert(err == nil, "C09 restart after a runtime rotation succeeds")
	if err != nil {
		return
	}
	vhSameKeyset(m3, first, "after rotation")
	vhSameKeyset(m3, second, "after rotation")
	vhSameKeyset(m3, third, "after rotation")
	active := 0
	for _, ks := range m3.keysets {
		if ks.Active {
			active++
		}
	}
	v.Assert(v.And(active == 1, m3.activeKeyset.Id == third.Id, third.InputFeePpk == fee2, third.DerivationPathIdx == second.DerivationPathIdx+1),
		"C09 after any restarts and rotations exactly one keyset is active: the latest, continuing the index sequence with its own fee")
	m3.db.Close()
	v.Reach("done")
}

func vhSameKeyset(m *Mint, want crypto.MintKeyset, when string) {
	got, ok := m.keysets[want.Id]
	v.Assert(ok, "C09 an earlier keyset reappears under the same id ("+when+")")
	if !ok {
		return
	}
	same := v.And(got.DerivationPathIdx == want.DerivationPathIdx, got.InputFeePpk == want.InputFeePpk, got.Unit == want.Unit, len(got.Keys) == len(want.Keys))
	for amount, kp := range want.Keys {
		g, okA := got.Keys[amount]
		if !okA {
			same = false
			break
		}
		same = v.And(same, v.SamePriv(g.PrivateKey, kp.PrivateKey), v.BytesEq(g.PublicKey.SerializeCompressed(), kp.PublicKey.SerializeCompressed()))
	}
	v.Assert(same, "C09 an earlier keyset reappears with the same index, fee and all 60 key pairs ("+when+")")
	_ = hex.EncodeToString
}
