package mint

import (
	"context"
	"fmt"

	"github.com/elnosh/gonuts/cashu"
	"github.com/elnosh/gonuts/cashu/nuts/nut05"
	"github.com/elnosh/gonuts/cashu/nuts/nut07"
	"github.com/elnosh/gonuts/mint/storage"
	v "github.com/elnosh/gonuts/verifrt"
)

const vhMaxMsatAmount = 1 << 50 // stated bound on invoice / quote amounts (msat), ~11k BTC

// vhMeltQuote stores a melt quote with symbolic amount / reserve / MPP fields that satisfies the quote
// invariant established by RequestMeltQuote (checked separately in VHarnessMeltQuote*).
func (env *vhEnv) meltQuote(id string, state nut05.State) storage.MeltQuote {
	q := storage.MeltQuote{Id: id, InvoiceRequest: "lnbc-" + id, PaymentHash: "ph-" + id, State: state, Expiry: 1}
	q.Amount = v.U64(id + ".amount")
	q.FeeReserve = v.U64(id + ".reserve")
	v.Assume(q.Amount < vhMaxMsatAmount)
	v.Assume(q.FeeReserve < vhMaxMsatAmount)
	q.IsMpp = v.Bool(id + ".mpp")
	if q.IsMpp {
		q.AmountMsat = v.U64(id + ".amount_msat")
		v.Assume(q.AmountMsat < vhMaxMsatAmount)
		// invariant of an MPP quote (established by RequestMeltQuote, see VHarnessMeltQuote): the sat amount covers the msat amount
		v.Assume(v.ZLe(v.ZU(q.AmountMsat), v.ZMul(v.ZU(q.Amount), v.ZU(1000))))
		v.Assume(v.ZLt(v.ZMul(v.ZU(q.Amount), v.ZU(1000)), v.ZAdd(v.ZU(q.AmountMsat), v.ZU(1000))))
	}
	// invariant of an externally paid quote: the reserve is the backend's reserve for the quoted amount
	v.Assume(q.FeeReserve == env.ln.FeeReserve(q.Amount))
	env.ln.FeeQ = nil
	v.Assume(env.db.SaveMeltQuote(q) == nil)
	return q
}

type vhObs struct {
	state              nut05.State
	preimage           string
	spent, pend, total v.Z
}

func (env *vhEnv) observe(quoteId string, ys []string) vhObs {
	raw := env.db.VhRaw()
	q, err := env.db.GetMeltQuote(quoteId)
	v.Assume(err == nil)
	o := vhObs{state: q.State, preimage: q.Preimage, spent: v.ZU(0), pend: v.ZU(0), total: v.ZU(uint64(len(ys)))}
	for _, y := range ys {
		o.spent = v.ZAdd(o.spent, v.SqlCount(raw, "proofs", "y", y))
		o.pend = v.ZAdd(o.pend, v.SqlCount(raw, "pending_proofs", "y", y))
	}
	return o
}

// C05: the observable state is exactly one of LOCKED / SPENT / RELEASED and follows the backend's answers
func (env *vhEnv) checkOutcome(o vhObs, step string) {
	z := v.ZU(0)
	locked := v.And(o.state == nut05.Pending, v.ZEq(o.pend, o.total), v.ZEq(o.spent, z))
	spent := v.And(o.state == nut05.Paid, v.ZEq(o.spent, o.total), v.ZEq(o.pend, z))
	released := v.And(o.state == nut05.Unpaid, v.ZEq(o.spent, z), v.ZEq(o.pend, z))
	v.Assert(v.Or(locked, spent, released), "C05 "+step+": quote state and input states are consistently LOCKED, SPENT or RELEASED")
	v.Assert(spent == env.ln.anySucceeded(), "C05 "+step+": inputs SPENT / quote PAID exactly when the backend reported success")
	v.Assert(v.Implies(released, env.ln.definitiveFailure()), "C05 "+step+": inputs released only after a definitive failure or not-found answer")
	if len(env.ln.Answers) > 0 {
		// the stored preimage is the one of the successful answer
		ok := v.Not(spent)
		for _, a := range env.ln.Answers {
			ok = v.Or(ok, v.And(a.ErrKind == 0, a.Status == 0, a.Preimage == o.preimage))
		}
		v.Assert(ok, "C05 "+step+": a PAID quote carries the preimage the backend reported")
	}
}

// One melt (external payment) followed by up to nPolls state polls, against a scripted backend.
func vhMeltFlow(mode int, nPolls int) {
	nKs, maxIn := 2, 2
	if mode&vhC05 != 0 {
		nKs, maxIn = 1, 1 // C05 explores the backend script; input validation is C01/C02/C04
	}
	env := vhNewEnv(nKs)
	m := env.m
	raw := env.db.VhRaw()
	if mode&vhC05 == 0 {
		v.SqlSymRows(raw, "proofs", 1)
		v.SqlSymRows(raw, "pending_proofs", 1)
	}
	q := env.meltQuote("mq1", nut05.Unpaid)
	nIn := v.Int("nIn", 1, maxIn)
	in := make(cashu.Proofs, nIn)
	ys := make([]string, nIn)
	for i := range in {
		in[i] = env.genuineProof(fmt.Sprintf("in%d", i))
		if mode&vhC05 != 0 {
			in[i].Witness = v.Str(fmt.Sprintf("in%d.witness", i)) // stored with the proof, reported by state checks (C15)
		}
		ys[i] = vhY(in[i].Secret)
	}
	usedBefore, pendBefore := v.ZU(0), v.ZU(0)
	for i := range in {
		usedBefore = v.ZAdd(usedBefore, v.SqlCount(raw, "proofs", "y", ys[i]))
		pendBefore = v.ZAdd(pendBefore, v.SqlCount(raw, "pending_proofs", "y", ys[i]))
	}
	s0 := v.SqlSnapshot(raw)
	_, err := m.MeltTokens(context.Background(), nut05.PostMeltBolt11Request{Quote: "mq1", Inputs: in})
	s1 := v.SqlSnapshot(raw)

	if mode&vhC02 != 0 {
		sumIn, ppk := v.ZU(0), v.ZU(0)
		for i := range in {
			sumIn = v.ZAdd(sumIn, v.ZU(in[i].Amount))
			ppk = v.ZAdd(ppk, v.ZU(uint64(m.keysets[in[i].Id].InputFeePpk)))
		}
		fee := v.ZCeilDiv(ppk, 1000)
		for _, p := range env.ln.Pays {
			v.Reach("payment-attempted")
			v.Assert(p.MaxFee <= q.FeeReserve, "C02 fee limit handed to the Lightning backend <= fee reserve of the quote")
			v.Assert(p.Request == q.InvoiceRequest, "C02 the invoice paid is the quote's invoice")
			v.Assert(p.Partial == q.IsMpp, "C02 partial payment exactly for MPP quotes")
			if p.Partial {
				v.Assert(p.AmountMsat == q.AmountMsat, "C02 MPP pays exactly the quoted msat amount")
			}
			need := v.ZAdd(v.ZAdd(v.ZU(q.Amount), v.ZU(q.FeeReserve)), fee)
			v.Assert(v.ZLe(need, sumIn), "C02 melt burns at least amount + fee reserve + input fees (unbounded integers)")
		}
		v.Assert(len(env.ln.Pays) <= 1, "C02 at most one payment attempt per melt request")
	}
	if mode&vhC01 != 0 {
		if len(env.ln.Pays) > 0 {
			v.Assert(v.And(v.ZEq(usedBefore, v.ZU(0)), v.ZEq(pendBefore, v.ZU(0))), "C01 melt pays => no input was spent or locked before")
			for i := range in {
				for j := 0; j < i; j++ {
					v.Assert(in[i].Secret != in[j].Secret, "C01 melt pays => no secret appears twice in the request")
				}
			}
		}
	}
	if len(env.ln.Pays) == 0 {
		v.Reach("melt-no-payment")
		if mode&vhC06 != 0 && err != nil {
			v.Assert(v.SqlSame(raw, s0, s1), "C06 rejected melt (no payment attempted) leaves every table unchanged")
		}
		return
	}
	if mode&vhC05 != 0 {
		env.checkOutcome(env.observe("mq1", ys), "after melt")
		for k := 0; k < nPolls; k++ {
			if v.Int("poll.kind", 0, 1) == 0 {
				_, perr := m.GetMeltQuoteState(context.Background(), "mq1")
				v.Assert(perr == nil, "C05 melt quote poll succeeds")
			} else {
				st, perr := m.ProofsStateCheck(ys)
				v.Assert(perr == nil, "C05 proof state check succeeds")
				if perr == nil {
					o := env.observe("mq1", ys)
					for i := range st {
						exp := nut07.Unspent
						if o.state == nut05.Paid {
							exp = nut07.Spent
						} else if o.state == nut05.Pending {
							exp = nut07.Pending
						}
						v.Assert(st[i].State == exp, "C05/C15 checkstate reports the inputs SPENT / PENDING / UNSPENT as the quote is PAID / PENDING / UNPAID")
					}
				}
			}
			env.checkOutcome(env.observe("mq1", ys), fmt.Sprintf("after poll %d", k+1))
			v.Reach(fmt.Sprintf("poll-%d", k+1))
		}
		// whatever path the inputs took (spent at once, locked then settled by a quote poll or by a state check), a final
		// state check reports them with the witness they were presented with
		fin, ferr := m.ProofsStateCheck(ys)
		if ferr == nil {
			for i := range fin {
				if i < len(in) && fin[i].State != nut07.Unspent {
					v.Assert(fin[i].Witness == in[i].Witness, "C15 a SPENT or PENDING proof is reported with the witness it was spent with, also when a pending melt was settled by a later poll")
				}
			}
		}
	}
}

const vhC05 = 1 << 8

func VHarnessMeltC02()      { vhMeltFlow(vhC02|vhC01, 0) }
func VHarnessMeltC05()      { vhMeltFlow(vhC05, 1) }
func VHarnessMeltC05Polls() { vhMeltFlow(vhC05, 2) }
func VHarnessMeltC06()      { vhMeltFlow(vhC06, 0) }
