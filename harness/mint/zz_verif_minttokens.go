package mint

import (
	"encoding/hex"
	"fmt"

	"github.com/elnosh/gonuts/cashu"
	"github.com/elnosh/gonuts/cashu/nuts/nut04"
	"github.com/elnosh/gonuts/cashu/nuts/nut20"
	"github.com/elnosh/gonuts/mint/storage"
	v "github.com/elnosh/gonuts/verifrt"
)

const vhC03 = 1 << 10

// One MintTokens request against a stored quote in any state, optionally NUT-20 locked.
func vhMintTokensStep(mode int, maxOut int) {
	env := vhNewEnv(2)
	m := env.m
	raw := env.db.VhRaw()
	v.SqlSymRows(raw, "blind_signatures", 1)
	q, lockKey := env.mintQuoteK("quote", true)
	v.Assume(q != nil)
	nOut := v.Int("nOut", 0, maxOut)
	out := make(cashu.BlindedMessages, nOut)
	for i := range out {
		out[i] = vhFreeOutput(fmt.Sprintf("out%d", i))
	}
	req := nut04.PostMintBolt11Request{Quote: q.Id, Outputs: out}
	// NUT-20 signature: none, garbage, by the lock key / a foreign key over the submitted outputs or over tampered ones
	sigKind := v.Int("sig.kind", 0, 5)
	signed := out
	signId := q.Id
	signer := v.Priv("sig.foreignkey")
	switch sigKind {
	case 1:
		req.Signature = v.Str("sig.garbage")
	case 2: // the quote's key (if locked) over exactly the outputs
		if lockKey != nil {
			signer = lockKey
		}
	case 3: // tampered: outputs reversed
		signed = make(cashu.BlindedMessages, nOut)
		for i := range out {
			signed[i] = out[nOut-1-i]
		}
	case 4: // tampered: one output dropped
		if nOut > 0 {
			signed = out[1:]
		}
	case 5: // other quote id
		signId = v.Str("sig.otherquote")
	}
	if sigKind >= 2 {
		sig, err := nut20.SignMintQuote(signer, signId, signed)
		v.Assume(err == nil)
		req.Signature = hex.EncodeToString(sig.Serialize())
	}
	s0 := v.SqlSnapshot(raw)
	sigs, err := m.MintTokens(req)
	s1 := v.SqlSnapshot(raw)
	if err == nil {
		v.Reach("mint-accepted")
		if mode&vhC03 != 0 {
			// paid (or unpaid with the backend reporting settled on this very call)
			settledNow := false
			if env.ln.InvoiceQ > 0 {
				settledNow = true
			}
			v.Assert(v.Or(q.State == nut04.Paid, v.And(q.State == nut04.Unpaid, settledNow)), "C03 issuance only for a PAID quote (or an UNPAID one the backend reports settled)")
			sum := v.ZU(0)
			for i := range out {
				sum = v.ZAdd(sum, v.ZU(out[i].Amount))
			}
			v.Assert(v.ZLe(sum, v.ZU(q.Amount)), "C03/C02 issued amount <= quoted amount (unbounded integers)")
			after, gerr := env.db.GetMintQuote(q.Id)
			v.Assert(v.And(gerr == nil, after.State == nut04.Issued), "C03 quote is ISSUED after a successful mint")
			if q.Pubkey != nil {
				// the accepted signature is by the lock key over quote id || B_0 .. B_n-1 of exactly the submitted outputs
				sb, derr := hex.DecodeString(req.Signature)
				okSig := false
				if derr == nil {
					exp, serr := nut20.SignMintQuote(lockKey, q.Id, out)
					if serr == nil {
						okSig = v.BytesEq(sb, exp.Serialize())
					}
				}
				v.Assert(okSig, "C03 NUT-20: issuance on a locked quote requires the lock key's signature over exactly the submitted outputs")
			}
			v.Assert(len(sigs) == nOut, "C03 one signature per output")
			for i := range sigs {
				if i < nOut {
					v.Assert(v.And(sigs[i].Amount == out[i].Amount, sigs[i].Id == m.activeKeyset.Id), "C02 minted signature has the output's amount on the active keyset")
				}
			}
			// a second request for the same quote is refused
			_, err2 := m.MintTokens(req)
			v.Assert(err2 != nil, "C03 after a successful issuance every further mint request for the quote fails")
		}
	} else {
		v.Reach("mint-rejected")
		if mode&vhC06 != 0 {
			// the quote may legitimately move UNPAID -> PAID when the backend reports settlement; nothing else may change
			after, gerr := env.db.GetMintQuote(q.Id)
			if gerr == nil && !(q.State == nut04.Unpaid && after.State == nut04.Paid) {
				v.Assert(v.SqlSame(raw, s0, s1), "C06 rejected mint request leaves every table unchanged (quote stays mintable)")
			}
		}
		if mode&vhC03 != 0 && sigKind == 2 && q.State == nut04.Paid {
			v.Reach("mint-rejected-with-valid-signature")
		}
	}
}

func VHarnessMintTokensC03() { vhMintTokensStep(vhC03, 2) }
func VHarnessMintTokensC06() { vhMintTokensStep(vhC06, 2) }

// C03/C02: the amount check of a mint request holds for totals beyond 2^64 too: four outputs over the denominations
// {1, 2^61, 2^62} (4 * 2^62 wraps to 0) on a PAID quote - issuance never exceeds the quoted amount in unbounded integers.
func VHarnessMintTokensWrap() {
	vhDenoms = []uint64{1, 1 << 61, 1 << 62}
	env := vhNewEnv(1)
	m := env.m
	q := storage.MintQuote{Id: "mintq1", Amount: v.U64("quote.amount"), PaymentRequest: "lnbc-mintq1", PaymentHash: "hash-mintq1", State: nut04.Paid, Expiry: 1}
	v.Assume(q.Amount < vhMaxMsatAmount)
	v.Assume(env.db.SaveMintQuote(q) == nil)
	out := make(cashu.BlindedMessages, 4)
	sum := v.ZU(0)
	for i := range out {
		out[i] = env.output(fmt.Sprintf("out%d", i), 0, v.Int(fmt.Sprintf("out%d.denom", i), 0, 2))
		sum = v.ZAdd(sum, v.ZU(out[i].Amount))
	}
	sigs, err := m.MintTokens(nut04.PostMintBolt11Request{Quote: q.Id, Outputs: out})
	if err == nil {
		v.Reach("wrap-accepted")
		v.Assert(v.ZLe(sum, v.ZU(q.Amount)), "C03/C02 issued amount <= quoted amount also when the outputs' total exceeds 2^64 (unbounded integers)")
		v.Assert(len(sigs) == 4, "C03 one signature per output")
	} else {
		v.Reach("wrap-rejected")
	}
}
