package mint

import (
	"fmt"

	"github.com/elnosh/gonuts/cashu"
	"github.com/elnosh/gonuts/cashu/nuts/nut07"
	v "github.com/elnosh/gonuts/verifrt"
)

// C15/C06: state check and restore from an arbitrary database state with an arbitrary query
// (known, unknown, repeated, malformed entries are all valuations of the free strings).
func vhQueryStep(mode int, maxQ int) {
	env := vhNewEnv(1)
	m := env.m
	raw := env.db.VhRaw()
	v.SqlSymRows(raw, "proofs", 2)
	v.SqlSymRows(raw, "pending_proofs", 1)
	v.SqlSymRows(raw, "blind_signatures", 2)
	// a pending proof belongs to a melt quote; here: quotes that are not PENDING any more cannot own pending proofs,
	// so the pending row's quote either does not exist (orphan) or is resolved through the backend: keep it simple and
	// make the backend answer "still pending / error" impossible to matter by having no such quote row.
	n := v.Int("nQ", 0, maxQ)
	ys := make([]string, n)
	for i := range ys {
		ys[i] = v.Str(fmt.Sprintf("y%d", i))
	}
	s0 := v.SqlSnapshot(raw)
	states, err := m.ProofsStateCheck(ys)
	s1 := v.SqlSnapshot(raw)
	if err == nil {
		v.Reach("checkstate-ok")
		if mode&vhC15 != 0 {
			v.Assert(len(states) == n, "C15 one state per requested Y")
			for i := range states {
				if i < n {
					spent := v.Not(v.ZEq(v.SqlCount(raw, "proofs", "y", ys[i]), v.ZU(0)))
					pend := v.Not(v.ZEq(v.SqlCount(raw, "pending_proofs", "y", ys[i]), v.ZU(0)))
					v.Assert(states[i].Y == ys[i], "C15 states are returned in request order")
					v.Assert((states[i].State == nut07.Spent) == spent, "C15 SPENT exactly for Ys in the spent table")
					v.Assert((states[i].State == nut07.Pending) == v.And(v.Not(spent), pend), "C15 PENDING exactly for unspent Ys locked by a melt")
					v.Assert((states[i].State == nut07.Unspent) == v.And(v.Not(spent), v.Not(pend)), "C15 UNSPENT exactly for Ys in neither table")
					// witness of a spent / pending proof is the stored one
					for r := 0; r < 2; r++ {
						hit := v.And(v.SqlRowPresent(raw, "proofs", r), v.SqlRowStr(raw, "proofs", r, "y") == ys[i])
						v.Assert(v.Implies(hit, states[i].Witness == v.SqlRowStr(raw, "proofs", r, "witness")), "C15 a SPENT proof is reported with the witness it was spent with")
					}
				}
			}
		}
	} else {
		v.Reach("checkstate-error")
	}
	if mode&vhC06 != 0 {
		v.Assert(v.SqlSame(raw, s0, s1), "C06 a state check without pending melts changes nothing")
	}
	bms := make(cashu.BlindedMessages, n)
	for i := range bms {
		bms[i] = cashu.BlindedMessage{Amount: v.U64(fmt.Sprintf("bm%d.amount", i)), Id: v.Str(fmt.Sprintf("bm%d.id", i)), B_: v.Str(fmt.Sprintf("bm%d.B_", i))}
	}
	outs, sigs, rerr := m.RestoreSignatures(bms)
	if rerr == nil {
		v.Reach("restore-ok")
		if mode&vhC15 != 0 {
			v.Assert(len(outs) == len(sigs), "C15 restore pairs every output with a signature")
			// walk the request in order: exactly the signed messages are returned, in order, with the stored fields
			k := 0
			for i := range bms {
				signed := v.Not(v.ZEq(v.SqlCount(raw, "blind_signatures", "b_", bms[i].B_), v.ZU(0)))
				if k < len(outs) && outs[k].B_ == bms[i].B_ && signed {
					for r := 0; r < 2; r++ {
						hit := v.And(v.SqlRowPresent(raw, "blind_signatures", r), v.SqlRowStr(raw, "blind_signatures", r, "b_") == bms[i].B_)
						same := v.And(sigs[k].Amount == v.SqlRowU64(raw, "blind_signatures", r, "amount"),
							sigs[k].C_ == v.SqlRowStr(raw, "blind_signatures", r, "c_"),
							sigs[k].Id == v.SqlRowStr(raw, "blind_signatures", r, "keyset_id"))
						if sigs[k].DLEQ != nil {
							same = v.And(same, sigs[k].DLEQ.E == v.SqlRowStr(raw, "blind_signatures", r, "e"), sigs[k].DLEQ.S == v.SqlRowStr(raw, "blind_signatures", r, "s"))
						} else {
							same = false
						}
						v.Assert(v.Implies(hit, same), "C15 restore returns the stored amount, keyset id, C_ and DLEQ of a signed message")
					}
					k++
				} else {
					v.Assert(v.Not(signed), "C15 restore returns every signed message of the request, in request order")
				}
			}
			v.Assert(k == len(outs), "C15 restore returns nothing for messages the mint never signed")
		}
	}
}

func VHarnessQueryC15() { vhQueryStep(vhC15, 2) }
func VHarnessQueryC06() { vhQueryStep(vhC06, 2) }

// C15 under storage faults: a state check / restore during which one storage call fails either reports an error or still
// tells the truth - it never answers successfully with part of the truth missing.
func VHarnessFaultQueryC15() {
	env := vhNewEnv(1)
	env.hook()
	m := env.m
	raw := env.db.VhRaw()
	v.SqlSymRows(raw, "proofs", 1)
	v.SqlSymRows(raw, "blind_signatures", 2)
	n := v.Int("nQ", 1, 2)
	bms := make(cashu.BlindedMessages, n)
	ys := make([]string, n)
	for i := range bms {
		bms[i] = cashu.BlindedMessage{Amount: v.U64(fmt.Sprintf("bm%d.amount", i)), Id: v.Str(fmt.Sprintf("bm%d.id", i)), B_: v.Str(fmt.Sprintf("bm%d.B_", i))}
		ys[i] = v.Str(fmt.Sprintf("y%d", i))
	}
	var outs cashu.BlindedMessages
	var sigs cashu.BlindedSignatures
	var rerr error
	if v.Int("op", 0, 1) == 0 {
		hit := v.FaultRun(func() { outs, sigs, rerr = m.RestoreSignatures(bms) })
		if hit {
			v.Reach("restore-struck")
		}
		if rerr == nil {
			v.Reach("restore-answered")
			nSigned := 0
			for i := range bms {
				signed := v.Not(v.ZEq(v.SqlCount(raw, "blind_signatures", "b_", bms[i].B_), v.ZU(0)))
				if signed {
					nSigned++
				}
			}
			v.Assert(v.And(len(outs) == nSigned, len(sigs) == nSigned), "C15 a restore that answers (also when a storage call failed underneath) returns every signed message of the request")
		}
	} else {
		var states []nut07.ProofState
		var serr error
		hit := v.FaultRun(func() { states, serr = m.ProofsStateCheck(ys) })
		if hit {
			v.Reach("checkstate-struck")
		}
		if serr == nil {
			v.Reach("checkstate-answered")
			v.Assert(len(states) == n, "C15 a state check that answers returns one state per Y")
			for i := range states {
				if i < n {
					spent := v.Not(v.ZEq(v.SqlCount(raw, "proofs", "y", ys[i]), v.ZU(0)))
					v.Assert((states[i].State == nut07.Spent) == spent, "C15 a state check that answers (also when a storage call failed underneath) reports SPENT exactly for the spent Ys")
				}
			}
		}
	}
}

// thorough tier: three query entries
func VHarnessQueryC15Wide() { vhQueryStep(vhC15, 3) }
