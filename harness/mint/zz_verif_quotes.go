package mint

import (
	"encoding/hex"

	"github.com/decred/dcrd/dcrec/secp256k1/v4"
	"github.com/elnosh/gonuts/cashu"
	"github.com/elnosh/gonuts/cashu/nuts/nut04"
	"github.com/elnosh/gonuts/cashu/nuts/nut05"
	"github.com/elnosh/gonuts/mint/storage"
	v "github.com/elnosh/gonuts/verifrt"
)

const (
	vhC16 = 1 << 9
)

// balance of the symbolic pre-state in unbounded integers (issued - redeemed)
func (env *vhEnv) balanceZ(nSigs, nProofs int) (issued, redeemed v.Z) {
	raw := env.db.VhRaw()
	issued, redeemed = v.ZU(0), v.ZU(0)
	for i := 0; i < nSigs; i++ {
		issued = v.ZAdd(issued, v.ZIte(v.SqlRowPresent(raw, "blind_signatures", i), v.ZU(v.SqlRowU64(raw, "blind_signatures", i, "amount")), v.ZU(0)))
	}
	for i := 0; i < nProofs; i++ {
		redeemed = v.ZAdd(redeemed, v.ZIte(v.SqlRowPresent(raw, "proofs", i), v.ZU(v.SqlRowU64(raw, "proofs", i, "amount")), v.ZU(0)))
	}
	return
}

// mintQuote stores (through the real SaveMintQuote) a mint quote with symbolic fields; returns nil if the
// model chose to have no such quote
func (env *vhEnv) mintQuote(tag string, withLock bool) *storage.MintQuote {
	q, _ := env.mintQuoteK(tag, withLock)
	return q
}

func (env *vhEnv) mintQuoteK(tag string, withLock bool) (*storage.MintQuote, *secp256k1.PrivateKey) {
	var lock *secp256k1.PrivateKey
	if v.Int(tag+".present", 0, 1) == 0 {
		return nil, nil
	}
	q := storage.MintQuote{Id: v.Str(tag + ".id"), Amount: v.U64(tag + ".amount"), PaymentRequest: v.Str(tag + ".request"),
		PaymentHash: v.Str(tag + ".hash"), State: nut04.State(v.Int(tag+".state", 0, 3)), Expiry: 1}
	v.Assume(q.Amount < vhMaxMsatAmount)
	if withLock && v.Int(tag+".locked", 0, 1) == 1 {
		lock = v.Priv(tag + ".lockkey")
		q.Pubkey = lock.PubKey()
	}
	v.Assume(env.db.SaveMintQuote(q) == nil)
	return &q, lock
}

// One RequestMintQuote from an arbitrary ledger state with arbitrary limits.
func vhMintQuoteStep(mode int, nSigs, nProofs int) {
	env := vhNewEnv(1)
	m := env.m
	raw := env.db.VhRaw()
	m.limits.MintingSettings.MaxAmount = v.U64("limit.mint.max")
	m.limits.MaxBalance = v.U64("limit.balance")
	if mode&vhC16 != 0 {
		m.limits.MeltingSettings.MaxAmount = v.U64("limit.melt.max")
	}
	v.SqlSymRows(raw, "blind_signatures", nSigs)
	v.SqlSymRows(raw, "proofs", nProofs)
	issued, redeemed := env.balanceZ(nSigs, nProofs)
	v.Assume(v.ZLe(redeemed, issued)) // ledger invariant (C02): never more redeemed than issued
	// stated bound (DESIGN.md C16, R1): everything ever issued is below 2^62 sat (the total bitcoin supply is < 2^51 sat);
	// without it the Go-side sums over keysets could exceed 2^63, which no reachable ledger does
	v.Assume(v.ZLt(issued, v.ZU(1<<62)))
	balance := v.ZSub(issued, redeemed)
	amount := v.U64("amount")
	req := nut04.PostMintQuoteBolt11Request{Amount: amount, Unit: v.PickStr(v.U64("unit"), "sat", "usd", "")}
	withKey := v.Bool("withPubkey")
	if withKey {
		req.Pubkey = hex.EncodeToString(v.Priv("lockkey").PubKey().SerializeCompressed())
	}
	s0 := v.SqlSnapshot(raw)
	q, err := m.RequestMintQuote(req)
	s1 := v.SqlSnapshot(raw)
	maxA, maxB := m.limits.MintingSettings.MaxAmount, m.limits.MaxBalance
	if err == nil {
		v.Reach("mint-quote-accepted")
		if mode&vhC16 != 0 {
			v.Assert(v.Not(v.And(maxA > 0, amount > maxA)), "C16 mint quote above the configured mint maximum is refused")
			v.Assert(v.Not(v.And(maxB > 0, v.ZLt(v.ZU(maxB), v.ZAdd(balance, v.ZU(amount))))),
				"C16 mint quote that would lift the balance above the configured maximum balance is refused (unbounded integers)")
		}
		if mode&vhC02 != 0 {
			st, gerr := env.db.GetMintQuote(q.Id)
			v.Assert(gerr == nil, "C03 accepted mint quote is stored")
			if gerr == nil {
				v.Assert(v.And(st.Amount == amount, st.State == nut04.Unpaid), "C03 a new mint quote is stored UNPAID with the requested amount")
				v.Assert((st.Pubkey != nil) == withKey, "C03 the NUT-20 lock key is stored exactly when one was given")
			}
		}
	} else {
		v.Reach("mint-quote-refused")
		if mode&(vhC06|vhC16) != 0 {
			v.Assert(v.SqlSame(raw, s0, s1), "C06/C16 refused mint quote request stores nothing")
		}
	}
	if mode&vhC16 != 0 {
		// reported totals and the info endpoint
		bal, berr := m.TotalBalance()
		if berr == nil && err != nil {
			v.Assert(v.ZEq(v.ZU(bal), balance), "C16 reported balance = issued - redeemed (exact)")
		}
	}
}

func VHarnessMintQuoteC16()     { vhMintQuoteStep(vhC16|vhC02, 1, 1) }
func VHarnessMintQuoteC16Wide() { vhMintQuoteStep(vhC16|vhC02, 2, 1) }
func VHarnessMintQuoteC06()     { vhMintQuoteStep(vhC06, 1, 1) }

// One RequestMeltQuote with a real invoice (or garbage), optional MPP, arbitrary limits and pre-existing quotes.
func vhMeltQuoteStep(mode int) {
	env := vhNewEnv(1)
	m := env.m
	raw := env.db.VhRaw()
	m.limits.MeltingSettings.MaxAmount = v.U64("limit.melt.max")
	if mode&vhC16 != 0 { // every limits configuration: the other limits are arbitrary too
		m.limits.MintingSettings.MaxAmount = v.U64("limit.mint.max")
		m.limits.MaxBalance = v.U64("limit.balance")
	}
	m.mppEnabled = v.Bool("mpp.enabled")
	mq := env.mintQuote("mintq", true)
	v.SqlSymRows(raw, "melt_quotes", 1)
	msat := v.U64("invoice.msat")
	v.Assume(msat < vhMaxMsatAmount)
	seed := v.Str("invoice.seed")
	hash := vhInvoiceHash(seed)
	var request string
	if v.Int("invoice.kind", 0, 1) == 0 {
		request = vhInvoice(msat, seed)
	} else {
		request = v.Str("invoice.garbage")
	}
	req := nut05.PostMeltQuoteBolt11Request{Request: request, Unit: v.PickStr(v.U64("unit"), "sat", "usd", "")}
	useMpp := v.Int("mpp.option", 0, 1) == 1
	var mppMsat uint64
	if useMpp {
		mppMsat = v.U64("mpp.msat")
		req.Options = map[string]nut05.MppOption{"mpp": {AmountMsat: mppMsat}}
	}
	internalBefore := false
	if mq != nil {
		internalBefore = mq.PaymentHash == hash
	}
	s0 := v.SqlSnapshot(raw)
	q, err := m.RequestMeltQuote(req)
	s1 := v.SqlSnapshot(raw)
	maxA := m.limits.MeltingSettings.MaxAmount
	if err == nil {
		v.Reach("melt-quote-accepted")
		if mode&vhC02 != 0 {
			paid := v.ZU(msat)
			if useMpp {
				paid = v.ZU(mppMsat)
				v.Assert(v.And(q.IsMpp, q.AmountMsat == mppMsat, mppMsat < msat), "C02 MPP quote records the partial msat amount, which is below the invoice amount")
			} else {
				v.Assert(!q.IsMpp, "C02 a quote without the mpp option is not MPP")
			}
			v.Assert(msat > 0, "C02 an invoice without amount is not quoted")
			v.Assert(v.Not(v.And(useMpp, internalBefore)), "C02 a partial (MPP) melt quote is never granted for the invoice of one of this mint's own mint quotes (internal settlement would credit that quote in full)")
			v.Assert(v.ZLe(paid, v.ZMul(v.ZU(q.Amount), v.ZU(1000))), "C02 the quoted sat amount covers the msat amount the mint will pay (no rounding down)")
			v.Assert(v.ZLt(v.ZMul(v.ZU(q.Amount), v.ZU(1000)), v.ZAdd(paid, v.ZU(1000))), "C02 the quoted sat amount is the msat amount rounded to the next sat, not more")
			v.Assert(v.And(q.InvoiceRequest == request, q.PaymentHash == hash, q.State == nut05.Unpaid), "C02 the quote stores the invoice, its payment hash and state UNPAID")
			// fee reserve: the backend's reserve for the quoted amount, or 0 when the invoice is this mint's own
			okFee := false
			for _, f := range env.ln.FeeQ {
				okFee = v.Or(okFee, v.And(f.Amount == q.Amount, f.Reserve == q.FeeReserve))
			}
			v.Assert(v.Or(v.And(internalBefore, q.FeeReserve == 0), v.And(v.Not(internalBefore), okFee)),
				"C02 fee reserve is the backend's reserve for the quoted amount (0 exactly for an internal invoice)")
			st, gerr := env.db.GetMeltQuote(q.Id)
			v.Assert(gerr == nil, "C02 accepted melt quote is stored")
			if gerr == nil {
				v.Assert(v.And(st.Amount == q.Amount, st.FeeReserve == q.FeeReserve, st.IsMpp == q.IsMpp, st.AmountMsat == q.AmountMsat,
					st.InvoiceRequest == q.InvoiceRequest, st.PaymentHash == q.PaymentHash, st.State == q.State), "C02 the stored melt quote equals the returned one")
			}
		}
		if mode&vhC16 != 0 {
			v.Assert(v.Not(v.And(maxA > 0, q.Amount > maxA)), "C16 melt quote above the configured melt maximum is refused")
		}
	} else {
		v.Reach("melt-quote-refused")
		if mode&(vhC06|vhC16) != 0 {
			v.Assert(v.SqlSame(raw, s0, s1), "C06/C16 refused melt quote request stores nothing")
		}
	}
}

func VHarnessMeltQuoteC02() { vhMeltQuoteStep(vhC02) }
func VHarnessMeltQuoteC16() { vhMeltQuoteStep(vhC16) }
func VHarnessMeltQuoteC06() { vhMeltQuoteStep(vhC06) }

// C16: the totals the mint reports and the info endpoint, over a history: an arbitrary ledger, then one more spend
// (a proof consumed) or one more issuance, with the info endpoint asked before and after.
func VHarnessMintInfoC16() {
	env := vhNewEnv(2)
	m := env.m
	raw := env.db.VhRaw()
	v.Assume(env.db.SaveSeed([]byte("0123456789abcdef0123456789abcdef")) == nil)
	m.limits.MaxBalance = v.U64("limit.balance")
	m.limits.MintingSettings.MaxAmount = v.U64("limit.mint.max")
	v.SqlSymRows(raw, "blind_signatures", 1)
	v.SqlSymRows(raw, "proofs", 1)
	issued, redeemed := env.balanceZ(1, 1)
	v.Assume(v.ZLe(redeemed, issued))
	v.Assume(v.ZLt(issued, v.ZU(1<<62)))
	maxB := m.limits.MaxBalance
	check := func(when string, issued, redeemed v.Z) {
		balance := v.ZSub(issued, redeemed)
		info, err := m.RetrieveMintInfo()
		v.Assert(err == nil, "C16 the info endpoint answers "+when)
		if err == nil {
			want := v.And(maxB > 0, v.ZLe(v.ZU(maxB), balance))
			v.Assert(info.Nuts.Nut04.Disabled == want, "C16 info shows minting disabled exactly when the balance has reached the configured maximum "+when)
		}
		bal, berr := m.TotalBalance()
		v.Assert(berr == nil, "C16 the balance is reported "+when)
		if berr == nil {
			v.Assert(v.ZEq(v.ZU(bal), balance), "C16 reported balance = issued - redeemed (exact) "+when)
		}
		is, ierr := m.IssuedEcash()
		rs, rerr := m.RedeemedEcash()
		v.Assert(v.And(ierr == nil, rerr == nil), "C16 the per-keyset totals are reported "+when)
		if ierr == nil && rerr == nil {
			si, sr := v.ZU(0), v.ZU(0)
			for _, a := range is {
				si = v.ZAdd(si, v.ZU(a))
			}
			for _, a := range rs {
				sr = v.ZAdd(sr, v.ZU(a))
			}
			v.Assert(v.And(v.ZEq(si, issued), v.ZEq(sr, redeemed)), "C16 the per-keyset issued / redeemed totals add up to everything signed / consumed "+when)
		}
	}
	check("before", issued, redeemed)
	v.Reach("info-before")
	// the history goes on: one more proof consumed, or one more signature handed out
	amt := v.U64("step.amount")
	v.Assume(amt < 1<<61)
	if v.Int("step.kind", 0, 1) == 0 {
		v.Assume(v.ZLe(v.ZAdd(redeemed, v.ZU(amt)), issued))
		p := cashu.Proof{Amount: amt, Id: env.ids[v.Int("step.ks", 0, 1)], Secret: v.Str("step.secret"), C: v.Str("step.C")}
		if env.db.SaveProofs(cashu.Proofs{p}) == nil {
			redeemed = v.ZAdd(redeemed, v.ZU(amt))
			v.Reach("spent-more")
		}
	} else {
		sig := cashu.BlindedSignature{Amount: amt, Id: env.ids[v.Int("step.ks", 0, 1)], C_: v.Str("step.C_"), DLEQ: &cashu.DLEQProof{E: "e1", S: "s1"}}
		if env.db.SaveBlindSignatures([]string{v.Str("step.B_")}, cashu.BlindedSignatures{sig}) == nil {
			issued = v.ZAdd(issued, v.ZU(amt))
			v.Reach("issued-more")
		}
	}
	check("after", issued, redeemed)
}
