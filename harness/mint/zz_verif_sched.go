package mint

import (
	"context"
	"time"

	"github.com/elnosh/gonuts/cashu"
	"github.com/elnosh/gonuts/cashu/nuts/nut04"
	"github.com/elnosh/gonuts/cashu/nuts/nut05"
	"github.com/elnosh/gonuts/mint/storage"
	v "github.com/elnosh/gonuts/verifrt"
)

// C01 (explicit schedules): two concurrent requests that present the same genuine proof; the interleaving at
// storage / Lightning call granularity is chosen by the solver (context bounded).
func vhRaceSpend(second string, preempt int) {
	env := vhNewEnv(1)
	v.Assume(env.m.keysets[env.ids[0]].InputFeePpk == 0)
	env.hook()
	m := env.m
	in, out, _ := env.balancedRequest()
	out2 := cashu.BlindedMessages{env.output("out1", 0, 0)}
	v.Assume(out[0].B_ != out2[0].B_)
	q := storage.MeltQuote{Id: "mq1", InvoiceRequest: "lnbc-mq1", PaymentHash: "ph-mq1", Amount: vhDenoms[0], FeeReserve: 0, State: nut05.Unpaid, Expiry: 1}
	v.Assume(env.db.SaveMeltQuote(q) == nil)
	var ok1, ok2 bool
	v.Go(func() { _, err := m.Swap(in, out); ok1 = err == nil })
	if second == "swap" {
		v.Go(func() { _, err := m.Swap(in, out2); ok2 = err == nil })
	} else {
		v.Go(func() { m.MeltTokens(context.Background(), nut05.PostMeltBolt11Request{Quote: "mq1", Inputs: in}) })
	}
	v.Join(preempt)
	if second != "swap" {
		ok2 = len(env.ln.Pays) > 0 // the melt is honoured if a payment was issued for it
	}
	v.Assert(v.Not(v.And(ok1, ok2)), "C01 concurrent requests presenting the same secret: at most one is honoured ("+second+")")
	v.Reach("joined")
	if ok1 || ok2 {
		v.Reach("one-honoured")
	}
}

func VHarnessRaceSwapSwap() { vhRaceSpend("swap", 2) }
func VHarnessRaceSwapMelt() { vhRaceSpend("melt", 2) }

// C03 (explicit schedules): two concurrent mint requests with different outputs on one PAID quote
func vhRaceMint(withWatcher bool, preempt int) {
	env := vhNewEnv(1)
	env.hook()
	m := env.m
	q := storage.MintQuote{Id: "mintq1", Amount: vhDenoms[0], PaymentRequest: "lnbc-mintq1", PaymentHash: "hash-mintq1", State: nut04.Paid, Expiry: uint64(time.Now().Unix()) + 3600}
	v.Assume(env.db.SaveMintQuote(q) == nil)
	o1 := cashu.BlindedMessages{env.output("out0", 0, 0)}
	o2 := cashu.BlindedMessages{env.output("out1", 0, 0)}
	v.Assume(o1[0].B_ != o2[0].B_)
	var ok1, ok2 bool
	v.Go(func() {
		_, err := m.MintTokens(nut04.PostMintBolt11Request{Quote: q.Id, Outputs: o1})
		ok1 = err == nil
	})
	env.ln.WatcherLive = withWatcher
	if withWatcher {
		// the real background watcher (invoicesub.go): subscription reports the invoice settled (or closes)
		v.Go(func() { m.checkInvoicePaid(m.ctx, q.Id) })
		v.Go(func() {
			_, err := m.MintTokens(nut04.PostMintBolt11Request{Quote: q.Id, Outputs: o2})
			ok2 = err == nil
		})
	} else {
		v.Go(func() {
			_, err := m.MintTokens(nut04.PostMintBolt11Request{Quote: q.Id, Outputs: o2})
			ok2 = err == nil
		})
	}
	v.Join(preempt)
	v.Assert(v.Not(v.And(ok1, ok2)), "C03 concurrent mint requests on one paid quote: at most one issuance per payment")
	v.Reach("joined")
}

func VHarnessRaceMintMint()    { vhRaceMint(false, 2) }
func VHarnessRaceMintWatcher() { vhRaceMint(true, 2) }

// C01/C05 (explicit schedules): two concurrent melts (different quotes) that present the same genuine proof. The lock in
// pending_proofs is the only thing that serialises them: at most one of them may go on to ask the backend for a payment.
func VHarnessRaceMeltMelt() {
	env := vhNewEnv(1)
	v.Assume(env.m.keysets[env.ids[0]].InputFeePpk == 0)
	env.hook()
	m := env.m
	in, _, ys := env.balancedRequest()
	raw := env.db.VhRaw()
	q1 := storage.MeltQuote{Id: "mq1", InvoiceRequest: "lnbc-mq1", PaymentHash: "ph-mq1", Amount: vhDenoms[0], FeeReserve: 0, State: nut05.Unpaid, Expiry: 1}
	q2 := storage.MeltQuote{Id: "mq2", InvoiceRequest: "lnbc-mq2", PaymentHash: "ph-mq2", Amount: vhDenoms[0], FeeReserve: 0, State: nut05.Unpaid, Expiry: 1}
	v.Assume(env.db.SaveMeltQuote(q1) == nil)
	v.Assume(env.db.SaveMeltQuote(q2) == nil)
	v.Go(func() { m.MeltTokens(context.Background(), nut05.PostMeltBolt11Request{Quote: "mq1", Inputs: in}) })
	v.Go(func() { m.MeltTokens(context.Background(), nut05.PostMeltBolt11Request{Quote: "mq2", Inputs: in}) })
	v.Join(2)
	v.Reach("joined")
	for _, p := range env.ln.Pays {
		v.Assert(v.Not(p.PriorOpen), "C01 concurrent melts presenting the same secret: no payment is attempted for one of them while the other's payment may still succeed")
	}
	if len(env.ln.Pays) == 2 {
		v.Reach("both-attempted")
	}
	if len(env.ln.Pays) == 1 {
		v.Reach("one-honoured")
		spent := v.ZEq(v.SqlCount(raw, "proofs", "y", ys[0]), v.ZU(1))
		pend := v.ZEq(v.SqlCount(raw, "pending_proofs", "y", ys[0]), v.ZU(1))
		mayBePaid := v.Not(env.ln.definitiveFailure())
		v.Assert(v.Implies(mayBePaid, v.Or(spent, pend)), "C05 concurrent melts: the inputs of the payment that may still succeed stay locked or spent, whatever the losing request does")
	}
}

// thorough tier: one more pre-emption
func VHarnessRaceSwapSwap3() { vhRaceSpend("swap", 3) }
func VHarnessRaceSwapMelt3() { vhRaceSpend("melt", 3) }
func VHarnessRaceMintMint3() { vhRaceMint(false, 3) }
