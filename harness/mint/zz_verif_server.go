package mint

import (
	"bytes"
	"encoding/json"
	"fmt"
	"net/http"
	"net/http/httptest"
	"strings"

	"github.com/elnosh/gonuts/cashu"
	"github.com/elnosh/gonuts/cashu/nuts/nut04"
	"github.com/elnosh/gonuts/cashu/nuts/nut05"
	"github.com/elnosh/gonuts/mint/storage"
	v "github.com/elnosh/gonuts/verifrt"
	"github.com/gorilla/mux"
)

// vhDo drives one HTTP handler: natively with httptest, in the engine through the handler-level model of net/http
func vhDo(handler func(http.ResponseWriter, *http.Request), method, url string, vars map[string]string, body []byte) (int, []byte) {
	if v.Native() {
		rec := httptest.NewRecorder()
		req := httptest.NewRequest(method, url, bytes.NewReader(body))
		req = mux.SetURLVars(req, vars)
		handler(rec, req)
		return rec.Code, rec.Body.Bytes()
	}
	// in the engine the handler is an ordinary call (so that its storage calls stay scheduling / fault points)
	rw, req := vhModelReq(method, url, vars, body)
	handler(rw, req)
	return vhModelResp(rw)
}

// intercepted by the engine (models/httpm.py): request / response objects of the handler-level net/http model
func vhModelReq(method, url string, vars map[string]string, body []byte) (http.ResponseWriter, *http.Request) {
	return nil, nil
}
func vhModelResp(rw http.ResponseWriter) (int, []byte) { return 0, nil }

// hand-built request JSON (not the repository's request types)
type vhJProof struct {
	Amount  uint64 `json:"amount"`
	Id      string `json:"id"`
	Secret  string `json:"secret"`
	C       string `json:"C"`
	Witness string `json:"witness,omitempty"`
}
type vhJOutput struct {
	Amount uint64 `json:"amount"`
	Id     string `json:"id"`
	B      string `json:"B_"`
}
type vhJSwap struct {
	Inputs  []vhJProof  `json:"inputs"`
	Outputs []vhJOutput `json:"outputs"`
}
type vhJErr struct {
	Detail *string `json:"detail"`
	Code   *int    `json:"code"`
}
type vhJSig struct {
	Amount uint64 `json:"amount"`
	Id     string `json:"id"`
	C      string `json:"C_"`
}
type vhJSwapResp struct {
	Signatures []vhJSig `json:"signatures"`
}

// C20: POST /v1/swap: 200 + {signatures:[..]} on success, 400 + {detail, code} carrying the code of the cause on refusal
// (storage errors reported generically), and NUT-19: a byte-identical replay returns the byte-identical response without
// executing again, while no other request is served from that cache entry.
func VHarnessServerSwap() {
	env := vhNewEnv(1)
	v.Assume(env.m.keysets[env.ids[0]].InputFeePpk == 0)
	ms := &MintServer{mint: env.m, cache: NewCache()}
	raw := env.db.VhRaw()
	v.SqlSymRows(raw, "proofs", 1)
	p := env.anyProof("in0")
	o := vhFreeOutput("out0")
	body, _ := json.Marshal(vhJSwap{Inputs: []vhJProof{{p.Amount, p.Id, p.Secret, p.C, p.Witness}}, Outputs: []vhJOutput{{o.Amount, o.Id, o.B_}}})
	// stated bound: request bodies below the mint's documented cache size limit (larger requests are served but not cached)
	v.Assume(len(body) < REQUEST_BODY_SIZE_LIMIT)
	status, resp := vhDo(ms.swapRequest, "POST", "/v1/swap", nil, body)
	s1 := v.SqlSnapshot(raw)
	if status == 200 {
		v.Reach("swap-200")
		var r vhJSwapResp
		v.Assert(json.Unmarshal(resp, &r) == nil, "C20 a successful swap answers 200 with a JSON body")
		v.Assert(len(r.Signatures) == 1, "C20 swap response has the NUT-03 shape {signatures:[{amount,id,C_,..}]}")
		if len(r.Signatures) == 1 {
			_, okC := vhParsePoint(r.Signatures[0].C)
			v.Assert(v.And(r.Signatures[0].Amount == o.Amount, r.Signatures[0].Id == env.m.activeKeyset.Id, okC), "C20 the signature in the response carries amount, keyset id and a hex point")
		}
		// NUT-19 replay
		st2, resp2 := vhDo(ms.swapRequest, "POST", "/v1/swap", nil, body)
		s2 := v.SqlSnapshot(raw)
		v.Assert(v.And(st2 == 200, v.BytesEq(resp, resp2)), "C20 NUT-19: replaying a byte-identical successful swap returns the byte-identical response")
		v.Assert(v.SqlSame(raw, s1, s2), "C20 NUT-19: the replay is served from the cache without executing the swap again")
		// near replays are not served from the cache: other path / other method
		st3, _ := vhDo(ms.swapRequest, "POST", "/v1/swap?x=1", nil, body)
		st4, _ := vhDo(ms.swapRequest, "PUT", "/v1/swap", nil, body)
		v.Assert(v.And(st3 == 400, st4 == 400), "C20 NUT-19: a request that differs in URL or method is not served from the cache (the inputs are spent: it is refused)")
		// ... nor one whose body differs in a single byte that does not change its JSON meaning (white space appended / prepended)
		st5, _ := vhDo(ms.swapRequest, "POST", "/v1/swap", nil, append(append([]byte{}, body...), ' '))
		st6, _ := vhDo(ms.swapRequest, "POST", "/v1/swap", nil, append([]byte{'\n'}, body...))
		v.Assert(v.And(st5 == 400, st6 == 400), "C20 NUT-19: a request whose body differs by one byte (white space) is not served from the cache")
	} else {
		v.Reach("swap-refused")
		v.Assert(status == 400, "C20 a refused swap answers 400")
		var e vhJErr
		v.Assert(v.And(json.Unmarshal(resp, &e) == nil, e.Detail != nil, e.Code != nil), "C20 the refusal body is {detail, code}")
		// the code is the code of the actual cause: ask the API again (a refused request changes nothing, C06)
		_, cause := env.m.Swap(cashu.Proofs{{Amount: p.Amount, Id: p.Id, Secret: p.Secret, C: p.C, Witness: p.Witness}}, cashu.BlindedMessages{{Amount: o.Amount, Id: o.Id, B_: o.B_}})
		if cause != nil && e.Code != nil {
			want := int(cashu.StandardErrCode)
			switch ce := cause.(type) {
			case cashu.Error:
				want = int(ce.Code)
			case *cashu.Error:
				want = int(ce.Code)
				if ce.Code == cashu.DBErrCode || ce.Code == cashu.LightningBackendErrCode {
					want = int(cashu.StandardErrCode)
				}
			}
			v.Assert(*e.Code == want, "C20 the refusal carries the NUT error code of the actual cause (storage / backend failures generically)")
		}
	}
}

// C20: the keys endpoints never answer one request with the cached response of another
func VHarnessServerKeysCache() {
	env := vhNewEnv(2)
	ms := &MintServer{mint: env.m, cache: NewCache()}
	st0, active := vhDo(ms.getActiveKeysets, "GET", "/v1/keys", nil, nil)
	v.Assert(st0 == 200, "C20 GET /v1/keys answers 200")
	id := v.Str("keyset.id")
	st, resp := vhDo(ms.getKeysetById, "GET", "/v1/keys/"+id, map[string]string{"id": id}, nil)
	_, known := env.m.keysets[id]
	if known {
		v.Assert(st == 200, "C20 GET /v1/keys/{id} answers 200 for a keyset of this mint")
		v.Reach("known-keyset")
	} else {
		v.Assert(st == 400, "C20 GET /v1/keys/{id} answers 400 for every id that is not a keyset of this mint, whatever is in the response cache")
		v.Reach("unknown-keyset")
	}
	// a second identical request gives the same answer
	st2, resp2 := vhDo(ms.getKeysetById, "GET", "/v1/keys/"+id, map[string]string{"id": id}, nil)
	v.Assert(v.And(st2 == st, v.BytesEq(resp, resp2)), "C20 repeating GET /v1/keys/{id} gives the same answer")
	_ = active
}

type vhJQuote struct {
	Quote *string `json:"quote"`
	State *string `json:"state"`
}

// C20: quote states are transported as the NUT strings for every state the mint can store
func VHarnessServerQuoteStates() {
	env := vhNewEnv(1)
	ms := &MintServer{mint: env.m, cache: NewCache()}
	st := v.Int("mintquote.state", 0, 3)
	q := storage.MintQuote{Id: "q1", Amount: 1, PaymentRequest: "lnbc", PaymentHash: "h", State: nut04.State(st), Expiry: 1}
	v.Assume(env.db.SaveMintQuote(q) == nil)
	code, resp := vhDo(ms.mintQuoteState, "GET", "/v1/mint/quote/bolt11/q1", map[string]string{"method": "bolt11", "quote_id": "q1"}, nil)
	if code == 200 {
		var r vhJQuote
		v.Assert(v.And(json.Unmarshal(resp, &r) == nil, r.Quote != nil, r.State != nil), "C20 mint quote state response has string fields quote and state")
		if r.State != nil {
			want := []string{"UNPAID", "PAID", "ISSUED", "PENDING"}[st]
			after, _ := env.db.GetMintQuote("q1")
			if after.State != nut04.State(st) { // the poll may move UNPAID to PAID
				want = "PAID"
			}
			v.Assert(*r.State == want, fmt.Sprintf("C20 mint quote state %d is transported as its NUT string", st))
		}
		v.Reach("mint-quote-state")
	}
	mst := v.Int("meltquote.state", 0, 2)
	mq := storage.MeltQuote{Id: "mq1", InvoiceRequest: "lnbc-mq1", PaymentHash: "ph", Amount: 1, State: nut05.State(mst), Expiry: 1}
	v.Assume(env.db.SaveMeltQuote(mq) == nil)
	code2, resp2 := vhDo(ms.meltQuoteState, "GET", "/v1/melt/quote/bolt11/mq1", map[string]string{"method": "bolt11", "quote_id": "mq1"}, nil)
	if code2 == 200 {
		var r vhJQuote
		v.Assert(v.And(json.Unmarshal(resp2, &r) == nil, r.State != nil), "C20 melt quote state response has a string field state")
		if r.State != nil {
			after, _ := env.db.GetMeltQuote("mq1")
			want := []string{"UNPAID", "PENDING", "PAID"}[int(after.State)]
			v.Assert(*r.State == want, "C20 melt quote state is transported as its NUT string")
		}
		v.Reach("melt-quote-state")
	}
	// unsupported method and unknown quote are refused with {detail, code}
	c3, r3 := vhDo(ms.mintQuoteState, "GET", "/v1/mint/quote/onchain/q1", map[string]string{"method": "onchain", "quote_id": "q1"}, nil)
	var e vhJErr
	v.Assert(v.And(c3 == 400, json.Unmarshal(r3, &e) == nil, e.Code != nil && *e.Code == int(cashu.PaymentMethodErrCode)), "C20 an unsupported payment method is refused with 400 and its NUT code")
}

type vhJMint struct {
	Quote   string      `json:"quote"`
	Outputs []vhJOutput `json:"outputs"`
}

// C20: POST /v1/mint/bolt11 for a stored quote in any state with an arbitrary backend answer: 200 + {signatures}, or
// 400 + {detail, code} with the code of the cause where storage / Lightning failures are reported generically;
// NUT-19 replay of a successful request.
func VHarnessServerMint() {
	env := vhNewEnv(1)
	ms := &MintServer{mint: env.m, cache: NewCache()}
	raw := env.db.VhRaw()
	q := env.mintQuote("quote", false)
	qid := v.Str("req.quote")
	o := vhFreeOutput("out0")
	body, _ := json.Marshal(vhJMint{Quote: qid, Outputs: []vhJOutput{{o.Amount, o.Id, o.B_}}})
	v.Assume(len(body) < REQUEST_BODY_SIZE_LIMIT)
	lnBefore := env.ln.InvoiceErrs
	status, resp := vhDo(ms.mintTokensRequest, "POST", "/v1/mint/bolt11", map[string]string{"method": "bolt11"}, body)
	lnFailed := env.ln.InvoiceErrs > lnBefore
	s1 := v.SqlSnapshot(raw)
	if status == 200 {
		v.Reach("mint-200")
		var r vhJSwapResp
		v.Assert(v.And(json.Unmarshal(resp, &r) == nil, len(r.Signatures) == 1), "C20 a successful mint answers 200 with {signatures:[..]}")
		v.Assert(v.And(q != nil, q != nil && qid == q.Id), "C20 tokens are only issued for a stored quote")
		st2, resp2 := vhDo(ms.mintTokensRequest, "POST", "/v1/mint/bolt11", map[string]string{"method": "bolt11"}, body)
		s2 := v.SqlSnapshot(raw)
		v.Assert(v.And(st2 == 200, v.BytesEq(resp, resp2)), "C20 NUT-19: replaying a byte-identical successful mint request returns the byte-identical response")
		v.Assert(v.SqlSame(raw, s1, s2), "C20 NUT-19: the replayed mint request is served from the cache without executing again")
	} else {
		v.Reach("mint-refused")
		v.Assert(status == 400, "C20 a refused mint request answers 400")
		var e vhJErr
		v.Assert(v.And(json.Unmarshal(resp, &e) == nil, e.Detail != nil, e.Code != nil), "C20 the refusal body is {detail, code}")
		if e.Code != nil && e.Detail != nil {
			v.Assert(v.And(*e.Code != int(cashu.DBErrCode), *e.Code != int(cashu.LightningBackendErrCode)), "C20 the internal storage / Lightning error codes never leave the mint")
			if lnFailed {
				v.Reach("mint-backend-failure")
				v.Assert(v.And(*e.Code == int(cashu.StandardErrCode), *e.Detail == cashu.StandardErr.Detail), "C20 a Lightning backend failure is reported generically, without internal detail")
			}
		}
	}
}

// C20: storage failures (an error injected at any one storage call of the operation, position symbolic) and Lightning
// lookup failures are reported generically by every handler: 400 + {detail, code} where the internal codes 1 / 2 never
// appear and the detail never carries the internal error text; without a failure the handler answers 200 or a NUT refusal.
func VHarnessServerFaults() {
	env := vhNewEnv(1)
	v.Assume(env.m.keysets[env.ids[0]].InputFeePpk == 0)
	env.hook()
	env.ln.QuietWatcher = true
	ms := &MintServer{mint: env.m, cache: NewCache()}
	bolt := map[string]string{"method": "bolt11"}
	mq := storage.MintQuote{Id: "mintq1", Amount: vhDenoms[0], PaymentRequest: "lnbc-mintq1", PaymentHash: "hash-mintq1", State: nut04.State(v.Int("mintq.state", 0, 1)), Expiry: 1}
	v.Assume(env.db.SaveMintQuote(mq) == nil)
	ins, outs, _ := env.balancedRequest()
	jin := []vhJProof{{ins[0].Amount, ins[0].Id, ins[0].Secret, ins[0].C, ins[0].Witness}}
	jout := []vhJOutput{{outs[0].Amount, outs[0].Id, outs[0].B_}}
	meltq := storage.MeltQuote{Id: "meltq1", InvoiceRequest: "lnbc-meltq1", PaymentHash: "hash-meltq1", Amount: vhDenoms[0], State: nut05.Unpaid, Expiry: 1}
	v.Assume(env.db.SaveMeltQuote(meltq) == nil)
	ep := v.Int("endpoint", 0, 8)
	var status int
	var resp []byte
	lnBefore := env.ln.InvoiceErrs
	hit := v.FaultRun(func() {
		switch ep {
		case 0:
			body, _ := json.Marshal(map[string]any{"amount": vhDenoms[0], "unit": "sat"})
			status, resp = vhDo(ms.mintRequest, "POST", "/v1/mint/quote/bolt11", bolt, body)
		case 1:
			status, resp = vhDo(ms.mintQuoteState, "GET", "/v1/mint/quote/bolt11/mintq1", map[string]string{"method": "bolt11", "quote_id": "mintq1"}, nil)
		case 2:
			body, _ := json.Marshal(vhJMint{Quote: "mintq1", Outputs: jout})
			status, resp = vhDo(ms.mintTokensRequest, "POST", "/v1/mint/bolt11", bolt, body)
		case 3:
			body, _ := json.Marshal(vhJSwap{Inputs: jin, Outputs: jout})
			status, resp = vhDo(ms.swapRequest, "POST", "/v1/swap", nil, body)
		case 4:
			body, _ := json.Marshal(map[string]any{"request": vhInvoice(uint64(vhDenoms[0])*1000, "melt-seed"), "unit": "sat"})
			status, resp = vhDo(ms.meltQuoteRequest, "POST", "/v1/melt/quote/bolt11", bolt, body)
		case 5:
			status, resp = vhDo(ms.meltQuoteState, "GET", "/v1/melt/quote/bolt11/meltq1", map[string]string{"method": "bolt11", "quote_id": "meltq1"}, nil)
		case 6:
			body, _ := json.Marshal(map[string]any{"quote": "meltq1", "inputs": jin})
			status, resp = vhDo(ms.meltTokens, "POST", "/v1/melt/bolt11", bolt, body)
		case 7:
			body, _ := json.Marshal(map[string]any{"Ys": []string{vhY(ins[0].Secret)}})
			status, resp = vhDo(ms.tokenStateCheck, "POST", "/v1/checkstate", nil, body)
		case 8:
			body, _ := json.Marshal(map[string]any{"outputs": jout})
			status, resp = vhDo(ms.restoreSignatures, "POST", "/v1/restore", nil, body)
		}
	})
	lnFailed := env.ln.InvoiceErrs > lnBefore
	v.Assert(v.Or(status == 200, status == 400), "C20 every handler answers 200 or 400")
	if status == 400 {
		var e vhJErr
		v.Assert(v.And(json.Unmarshal(resp, &e) == nil, e.Detail != nil, e.Code != nil), "C20 the refusal body is {detail, code}")
		if e.Code != nil && e.Detail != nil {
			v.Assert(v.And(*e.Code != int(cashu.DBErrCode), *e.Code != int(cashu.LightningBackendErrCode)), "C20 the internal storage / Lightning error codes never leave the mint")
			v.Assert(v.Not(v.Or(strings.Contains(*e.Detail, "injected storage fault"), strings.Contains(*e.Detail, "scripted backend"))), "C20 the refusal detail never carries the internal error text of a storage or Lightning failure")
			if v.Or(hit, lnFailed) {
				v.Reach("failure-reported")
			}
		}
	} else {
		v.Reach("answered-200")
	}
	if !hit && !lnFailed {
		v.Reach("no-failure")
	}
}

type vhJState struct {
	Y       *string `json:"Y"`
	State   *string `json:"state"`
	Witness *string `json:"witness"`
}
type vhJStates struct {
	States []vhJState `json:"states"`
}

// C20: POST /v1/checkstate transports the mint's decision: one entry per requested Y, in order, the state as its NUT-07
// string and the witness a spent or pending proof was presented with
func VHarnessServerCheckstate() {
	env := vhNewEnv(1)
	ms := &MintServer{mint: env.m, cache: NewCache()}
	raw := env.db.VhRaw()
	v.SqlSymRows(raw, "proofs", 1)
	v.SqlSymRows(raw, "pending_proofs", 1)
	n := v.Int("nQ", 1, 2)
	ys := make([]string, n)
	for i := range ys {
		ys[i] = v.Str(fmt.Sprintf("y%d", i))
	}
	want, werr := env.m.ProofsStateCheck(ys)
	body, _ := json.Marshal(map[string]any{"Ys": ys})
	status, resp := vhDo(ms.tokenStateCheck, "POST", "/v1/checkstate", nil, body)
	if werr != nil {
		v.Assert(status == 400, "C20 a refused state check answers 400")
		v.Reach("checkstate-400")
		return
	}
	v.Assert(status == 200, "C20 a successful state check answers 200")
	var r vhJStates
	v.Assert(v.And(json.Unmarshal(resp, &r) == nil, len(r.States) == n), "C20 checkstate response is {states:[..]} with one entry per requested Y")
	if len(r.States) == n {
		for i := range want {
			st := r.States[i]
			v.Assert(v.And(st.Y != nil, st.State != nil), "C20 every state entry carries Y and state as strings")
			if st.Y != nil && st.State != nil {
				v.Assert(v.And(*st.Y == want[i].Y, *st.State == want[i].State.String()), "C20 the entry transports the Y and the NUT-07 state string of the mint's decision, in request order")
				got := ""
				if st.Witness != nil {
					got = *st.Witness
				}
				v.Assert(got == want[i].Witness, "C20 the entry transports the witness the mint reports for a spent or pending proof")
			}
		}
	}
	v.Reach("checkstate-200")
}
