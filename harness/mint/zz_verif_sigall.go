package mint

import (
	"context"
	"crypto/sha256"
	"encoding/hex"
	"time"

	"github.com/elnosh/gonuts/cashu"
	"github.com/elnosh/gonuts/cashu/nuts/nut05"
	"github.com/elnosh/gonuts/cashu/nuts/nut10"
	"github.com/elnosh/gonuts/cashu/nuts/nut11"
	"github.com/elnosh/gonuts/cashu/nuts/nut14"
	"github.com/elnosh/gonuts/crypto"
	"github.com/elnosh/gonuts/mint/storage"
	v "github.com/elnosh/gonuts/verifrt"
)

// a genuine proof of keyset 0 / denomination 0 over a given secret
func (env *vhEnv) genuineProofFor(secret string) cashu.Proof {
	id := env.ids[0]
	k := env.m.keysets[id].Keys[vhDenoms[0]].PrivateKey
	Y, err := crypto.HashToCurve([]byte(secret))
	v.Assume(err == nil)
	return cashu.Proof{Amount: vhDenoms[0], Id: id, Secret: secret, C: hex.EncodeToString(vhMul(k, Y).SerializeCompressed())}
}

// C12/C13 at the mint: a swap whose input carries SIG_ALL is accepted with the witnesses produced by the library's own
// helpers for inputs and outputs, and rejected when an output is unsigned or signed by a foreign key; such inputs cannot
// be melted.  P2PK and HTLC.
func vhSigAllSwap(kind nut10.SecretKind) {
	env := vhNewEnv(1)
	v.Assume(env.m.keysets[env.ids[0]].InputFeePpk == 0)
	m := env.m
	now := time.Now().Unix()
	l := nut11.VhNewLock("lock", 1, 1, 0, now)
	v.Assume(l.Sigflag == nut11.SIGALL)
	v.Assume(v.Not(v.And(l.NSigs > 0, len(l.Pubs) == 0)))
	signer := l.Data
	var data, preimage string
	if kind == nut10.P2PK {
		data = hex.EncodeToString(l.Data.PubKey().SerializeCompressed())
	} else {
		v.Assume(l.NSigs == 1) // an HTLC with SIG_ALL needs a listed key to sign the outputs
		signer = l.Pubs[0]
		real := v.Str("htlc.preimage.bytes")
		h := sha256.Sum256([]byte(real))
		data = hex.EncodeToString(h[:])
		preimage = hex.EncodeToString([]byte(real))
	}
	secretObj := l.VhSecret(kind, data, v.Str("nonce"))
	secret, serr := nut10.SerializeSecret(secretObj)
	v.Assume(serr == nil)
	v.Assume(len(secret) <= cashu.MAX_SECRET_LENGTH)
	proofs := cashu.Proofs{env.genuineProofFor(secret)}
	// position of the flagged input: 0 alone, 1 behind a plain input, 2 behind an input with the same lock (same keys, n_sigs,
	// locktime) that does not carry SIG_ALL
	nPlain := v.Int("plainInputsBefore", 0, 2)
	var err error
	if kind == nut10.P2PK {
		proofs, err = nut11.AddSignatureToInputs(proofs, signer)
	} else {
		proofs, err = nut14.AddWitnessHTLC(proofs, secretObj, preimage, signer)
	}
	v.Assume(err == nil)
	outs := cashu.BlindedMessages{env.output("out0", 0, 0)}
	// outputs: 0 witnesses by the library helper, 1 none, 2 helper with a foreign key, 3 (HTLC) signed by the right key but
	// without the preimage
	mode := v.Int("outputs.witness", 0, 3)
	if mode == 3 {
		v.Assume(kind == nut10.HTLC)
		v.Assume(preimage != "") // the empty string is a preimage like any other: the case is about a *missing* right one
	}
	okey := signer
	if mode == 2 {
		okey = l.Foreign
	}
	if mode != 1 {
		if kind == nut10.P2PK || mode == 3 {
			outs, err = nut11.AddSignatureToOutputs(outs, okey)
		} else {
			outs, err = nut14.AddWitnessHTLCToOutputs(outs, preimage, okey)
		}
		v.Assume(err == nil)
	}
	if nPlain >= 1 {
		var firstIn cashu.Proof
		if nPlain == 1 {
			plain := env.genuineProof("plain0")
			v.Assume(plain.Amount == vhDenoms[0])
			v.Assume(len(plain.Secret) <= cashu.MAX_SECRET_LENGTH)
			_, derr := nut10.DeserializeSecret(plain.Secret)
			v.Assume(derr != nil)
			firstIn = plain
		} else {
			tags2 := [][]string{}
			for _, t := range l.Tags {
				if len(t) > 0 && t[0] == "sigflag" {
					continue
				}
				tags2 = append(tags2, t)
			}
			sec2 := nut10.WellKnownSecret{Kind: kind, Data: nut10.SecretData{Nonce: v.Str("nonce2"), Data: data, Tags: tags2}}
			s2, e2 := nut10.SerializeSecret(sec2)
			v.Assume(e2 == nil)
			v.Assume(len(s2) <= cashu.MAX_SECRET_LENGTH)
			v.Assume(s2 != secret)
			f := cashu.Proofs{env.genuineProofFor(s2)}
			if kind == nut10.P2PK {
				f, err = nut11.AddSignatureToInputs(f, signer)
			} else {
				f, err = nut14.AddWitnessHTLC(f, sec2, preimage, signer)
			}
			v.Assume(err == nil)
			firstIn = f[0]
		}
		proofs = cashu.Proofs{firstIn, proofs[0]}
		outs = append(outs, env.output("out1", 0, 0))
		if mode == 0 || mode == 3 { // sign the second output as well
			extra := cashu.BlindedMessages{outs[1]}
			if kind == nut10.P2PK || mode == 3 {
				extra, err = nut11.AddSignatureToOutputs(extra, okey)
			} else {
				extra, err = nut14.AddWitnessHTLCToOutputs(extra, preimage, okey)
			}
			v.Assume(err == nil)
			outs[1] = extra[0]
		}
	}
	// melting a SIG_ALL input is refused
	q := storage.MeltQuote{Id: "mq1", InvoiceRequest: "lnbc-mq1", PaymentHash: "ph-mq1", Amount: 1, FeeReserve: 0, State: nut05.Unpaid, Expiry: 1}
	v.Assume(env.db.SaveMeltQuote(q) == nil)
	raw := env.db.VhRaw()
	s0 := v.SqlSnapshot(raw)
	_, merr := m.MeltTokens(context.Background(), nut05.PostMeltBolt11Request{Quote: "mq1", Inputs: proofs})
	s1 := v.SqlSnapshot(raw)
	v.Assert(v.And(merr != nil, len(env.ln.Pays) == 0), "C12 inputs carrying SIG_ALL cannot be melted, wherever the flagged input sits")
	v.Assert(v.SqlSame(raw, s0, s1), "C06 the refused melt of SIG_ALL inputs changes nothing (inputs not locked, quote still UNPAID)")

	_, err = m.Swap(proofs, outs)
	switch mode {
	case 0:
		if nPlain == 0 {
			v.Assert(err == nil, "C12/C13 SIG_ALL swap carrying the witnesses produced by the library's own helpers for inputs and outputs is accepted")
			v.Reach("helpers-accepted")
		} else {
			// mixed inputs: all inputs must share the condition and the flag, so a plain input - or one with the same lock but
			// without SIG_ALL - in front of a SIG_ALL one is refused
			v.Assert(err != nil, "C12 SIG_ALL swap is refused unless all inputs share the same condition, SIG_ALL included")
			v.Reach("mixed-rejected")
		}
	case 3:
		v.Assert(err != nil, "C13 SIG_ALL swap of HTLC inputs is refused when an output carries signatures but not the preimage")
		v.Reach("no-preimage-rejected")
	default:
		v.Assert(err != nil, "C12/C13 SIG_ALL swap succeeds only if every output is signed by an authorised key (wherever the flagged input sits)")
		v.Reach("unsigned-rejected")
	}
}

func VHarnessSigAllSwapP2PK() { vhSigAllSwap(nut10.P2PK) }
func VHarnessSigAllSwapHTLC() { vhSigAllSwap(nut10.HTLC) }
