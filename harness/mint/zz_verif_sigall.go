package mint

import (
	"context"
	"crypto/sha256"
	"encoding/hex"
	"time"

	"github.com/elnosh/gonuts/cashu"
	"github.com/elnosh/gonuts/cashu/nuts/nut05"
	"github.com/elnosh/gonuts/cashu/nuts/nut10"
	"github.com/elnosh/gonuts/cashu/nuts/nut11"
	"github.com/elnosh/gonuts/cashu/nuts/nut14"
	"github.com/elnosh/gonuts/crypto"
	"github.com/elnosh/gonuts/mint/storage"
	v "github.com/elnosh/gonuts/verifrt"
)

// a genuine proof of keyset 0 / denomination 0 over a given secret
func (env *vhEnv) genuineProofFor(secret string) cashu.Proof {
	id := env.ids[0]
	k := env.m.keysets[id].Keys[vhDenoms[0]].PrivateKey
	Y, err := crypto.HashToCurve([]byte(secret))
	v.Assume(err == nil)
	return cashu.Proof{Amount: vhDenoms[0], Id: id, Secret: secret, C: hex.EncodeToString(vhMul(k, Y).SerializeCompressed())}
}

// C12/C13 at the mint: a swap whose input carries SIG_ALL is accepted with the witnesses produced by the library's own
// helpers for inputs and outputs, and rejected when an output is unsigned or signed by a foreign key; such inputs cannot
// be melted.  P2PK and HTLC.
func vhSigAllSwap(kind nut10.SecretKind) {
	env := vhNewEnv(1)
	v.Assume(env.m.keysets[env.ids[0]].InputFeePpk == 0)
	m := env.m
	now := time.Now().Unix()
	l := nut11.VhNewLock("lock", 1, 1, 0, now)
	v.Assume(l.Sigflag == nut11.SIGALL)
	v.Assume(v.Not(v.And(l.NSigs > 0, len(l.Pubs) == 0)))
	signer := l.Data
	var data, preimage string
	if kind == nut10.P2PK {
		data = hex.EncodeToString(l.Data.PubKey().SerializeCompressed())
	} else {
		v.Assume(l.NSigs == 1) // an HTLC with SIG_ALL needs a listed key to sign the outputs
		signer = l.Pubs[0]
		real := v.Str("htlc.preimage.bytes")
		h := sha256.Sum256([]byte(real))
		data = hex.EncodeToString(h[:])
		preimage = hex.EncodeToString([]byte(real))
	}
	secretObj := l.VhSecret(kind, data, v.Str("nonce"))
	secret, serr := nut10.SerializeSecret(secretObj)
	v.Assume(serr == nil)
	v.Assume(len(secret) <= cashu.MAX_SECRET_LENGTH)
	proofs := cashu.Proofs{env.genuineProofFor(secret)}
	nPlain := v.Int("plainInputsBefore", 0, 1) // position of the flagged input: a plain input may come first
	var err error
	if kind == nut10.P2PK {
		proofs, err = nut11.AddSignatureToInputs(proofs, signer)
	} else {
		proofs, err = nut14.AddWitnessHTLC(proofs, secretObj, preimage, signer)
	}
	v.Assume(err == nil)
	outs := cashu.BlindedMessages{env.output("out0", 0, 0)}
	mode := v.Int("outputs.witness", 0, 2)
	okey := signer
	if mode == 2 {
		okey = l.Foreign
	}
	if mode != 1 {
		if kind == nut10.P2PK {
			outs, err = nut11.AddSignatureToOutputs(outs, okey)
		} else {
			outs, err = nut14.AddWitnessHTLCToOutputs(outs, preimage, okey)
		}
		v.Assume(err == nil)
	}
	if nPlain == 1 {
		plain := env.genuineProof("plain0")
		v.Assume(plain.Amount == vhDenoms[0])
		v.Assume(len(plain.Secret) <= cashu.MAX_SECRET_LENGTH)
		_, derr := nut10.DeserializeSecret(plain.Secret)
		v.Assume(derr != nil)
		proofs = cashu.Proofs{plain, proofs[0]}
		outs = append(outs, env.output("out1", 0, 0))
		if mode == 0 { // sign the second output as well
			extra := cashu.BlindedMessages{outs[1]}
			if kind == nut10.P2PK {
				extra, err = nut11.AddSignatureToOutputs(extra, okey)
			} else {
				extra, err = nut14.AddWitnessHTLCToOutputs(extra, preimage, okey)
			}
			v.Assume(err == nil)
			outs[1] = extra[0]
		}
	}
	// melting a SIG_ALL input is refused
	q := storage.MeltQuote{Id: "mq1", InvoiceRequest: "lnbc-mq1", PaymentHash: "ph-mq1", Amount: 1, FeeReserve: 0, State: nut05.Unpaid, Expiry: 1}
	v.Assume(env.db.SaveMeltQuote(q) == nil)
	raw := env.db.VhRaw()
	s0 := v.SqlSnapshot(raw)
	_, merr := m.MeltTokens(context.Background(), nut05.PostMeltBolt11Request{Quote: "mq1", Inputs: proofs})
	s1 := v.SqlSnapshot(raw)
	v.Assert(v.And(merr != nil, len(env.ln.Pays) == 0), "C12 inputs carrying SIG_ALL cannot be melted, wherever the flagged input sits")
	v.Assert(v.SqlSame(raw, s0, s1), "C06 the refused melt of SIG_ALL inputs changes nothing (inputs not locked, quote still UNPAID)")

	_, err = m.Swap(proofs, outs)
	switch mode {
	case 0:
		if nPlain == 0 {
			v.Assert(err == nil, "C12/C13 SIG_ALL swap carrying the witnesses produced by the library's own helpers for inputs and outputs is accepted")
			v.Reach("helpers-accepted")
		} else {
			// mixed inputs: all inputs must share the condition, so a plain input next to a SIG_ALL one is refused
			v.Assert(err != nil, "C12 SIG_ALL swap is refused unless all inputs share the same condition")
		}
	default:
		v.Assert(err != nil, "C12/C13 SIG_ALL swap succeeds only if every output is signed by an authorised key (wherever the flagged input sits)")
		v.Reach("unsigned-rejected")
	}
}

func VHarnessSigAllSwapP2PK() { vhSigAllSwap(nut10.P2PK) }
func VHarnessSigAllSwapHTLC() { vhSigAllSwap(nut10.HTLC) }
