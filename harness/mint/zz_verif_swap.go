package mint

import (
	"encoding/hex"
	"fmt"

	"github.com/decred/dcrd/dcrec/secp256k1/v4"
	"github.com/elnosh/gonuts/cashu"
	"github.com/elnosh/gonuts/cashu/nuts/nut07"
	v "github.com/elnosh/gonuts/verifrt"
)

// vhMul computes k*P with the library primitives directly (oracle side, independent of package crypto)
func vhMul(k *secp256k1.PrivateKey, P *secp256k1.PublicKey) *secp256k1.PublicKey {
	var p, r secp256k1.JacobianPoint
	P.AsJacobian(&p)
	secp256k1.ScalarMultNonConst(&k.Key, &p, &r)
	r.ToAffine()
	return secp256k1.NewPublicKey(&r.X, &r.Y)
}

func vhParsePoint(h string) (*secp256k1.PublicKey, bool) {
	b, err := hex.DecodeString(h)
	if err != nil {
		return nil, false
	}
	p, err := secp256k1.ParsePubKey(b)
	if err != nil {
		return nil, false
	}
	return p, true
}

const (
	vhC01 = 1 << iota
	vhC02
	vhC06
	vhC15
)

// One swap from an arbitrary database state with arbitrary inputs and outputs.
func vhSwapStep(mode int, maxIn, maxOut, rProofs, rPending, rSigs int) {
	env := vhNewEnv(2)
	if vhSwapFault {
		env.hook()
	}
	m := env.m
	raw := env.db.VhRaw()
	v.SqlSymRows(raw, "proofs", rProofs)
	v.SqlSymRows(raw, "pending_proofs", rPending)
	v.SqlSymRows(raw, "blind_signatures", rSigs)
	nIn, nOut := v.Int("nIn", 0, maxIn), v.Int("nOut", 0, maxOut)
	in := make(cashu.Proofs, nIn)
	ys := make([]string, nIn)
	for i := range in {
		in[i] = env.anyProof(fmt.Sprintf("in%d", i))
		ys[i] = vhY(in[i].Secret)
	}
	out := make(cashu.BlindedMessages, nOut)
	for i := range out {
		out[i] = vhFreeOutput(fmt.Sprintf("out%d", i))
	}
	sigBefore := make([]v.Z, nOut)
	for i := range out {
		sigBefore[i] = v.SqlCount(raw, "blind_signatures", "b_", out[i].B_)
	}
	usedBefore := make([]v.Z, nIn)
	pendBefore := make([]v.Z, nIn)
	for i := range in {
		usedBefore[i] = v.SqlCount(raw, "proofs", "y", ys[i])
		pendBefore[i] = v.SqlCount(raw, "pending_proofs", "y", ys[i])
	}
	s0 := v.SqlSnapshot(raw)

	var sigs cashu.BlindedSignatures
	var err error
	if vhSwapFault {
		// one storage call of the swap (any one, chosen by the solver) fails: every conclusion drawn from an accepted swap
		// must still hold - an error swallowed on the way must not open a check
		if v.FaultRun(func() { sigs, err = m.Swap(in, out) }) {
			v.Reach("struck")
		}
	} else {
		sigs, err = m.Swap(in, out)
	}

	s1 := v.SqlSnapshot(raw)
	if err == nil {
		v.Reach("swap-accepted")
		if mode&vhC01 != 0 {
			for i := range in {
				v.Assert(v.ZEq(usedBefore[i], v.ZU(0)), "C01 swap accepted => input was not already spent")
				v.Assert(v.ZEq(pendBefore[i], v.ZU(0)), "C01 swap accepted => input was not locked by a pending melt")
				v.Assert(v.ZEq(v.SqlCount(raw, "proofs", "y", ys[i]), v.ZU(1)), "C01 swap accepted => input is recorded spent afterwards")
				for j := 0; j < i; j++ {
					v.Assert(in[i].Secret != in[j].Secret, "C01 swap accepted => no secret appears twice in the request")
				}
			}
			v.Assert(nIn > 0, "C01 swap accepted => at least one input")
		}
		if mode&vhC02 != 0 {
			sumIn, sumOut, ppk := v.ZU(0), v.ZU(0), v.ZU(0)
			for i := range in {
				// value is counted once per secret: a secret presented twice in one request is worth its amount once
				dup := false
				for j := 0; j < i; j++ {
					dup = v.Or(dup, in[i].Secret == in[j].Secret)
				}
				sumIn = v.ZAdd(sumIn, v.ZIte(dup, v.ZU(0), v.ZU(in[i].Amount)))
				ks, ok := m.keysets[in[i].Id]
				v.Assert(ok, "C02 swap accepted => every input names a keyset of this mint")
				ppk = v.ZAdd(ppk, v.ZU(uint64(ks.InputFeePpk)))
			}
			v.Assert(len(sigs) == nOut, "C02 swap accepted => one signature per output")
			for i := range sigs {
				sumOut = v.ZAdd(sumOut, v.ZU(sigs[i].Amount))
				v.Assert(sigs[i].Amount == out[i].Amount, "C02 signature carries the amount of its output")
				v.Assert(sigs[i].Id == m.activeKeyset.Id, "C02 signature is issued on the active keyset")
				kp, ok := m.activeKeyset.Keys[out[i].Amount]
				v.Assert(ok, "C02 signed amount is a denomination of the active keyset")
				B_, okB := vhParsePoint(out[i].B_)
				C_, okC := vhParsePoint(sigs[i].C_)
				v.Assert(v.And(okB, okC), "C02 signature and output are well-formed points")
				if ok && okB && okC {
					v.Assert(v.SamePub(C_, vhMul(kp.PrivateKey, B_)), "C02 C_ = k(amount) * B_ for exactly the output's amount")
				}
			}
			fee := v.ZCeilDiv(ppk, 1000)
			v.Assert(v.ZLe(v.ZAdd(sumOut, fee), sumIn), "C02 swap accepted => sum(outputs) + input fee <= sum(inputs, each secret counted once) in unbounded integers")
		}
		if mode&vhC15 != 0 {
			states, serr := m.ProofsStateCheck(ys)
			v.Assert(serr == nil, "C15 state check after an accepted swap succeeds")
			if serr == nil {
				v.Assert(len(states) == nIn, "C15 one state per Y")
				for i := range states {
					v.Assert(v.And(states[i].Y == ys[i], states[i].State == nut07.Spent, states[i].Witness == in[i].Witness),
						"C15 an input of an accepted swap is reported SPENT in request order with its witness")
				}
			}
			outs, rsigs, rerr := m.RestoreSignatures(out)
			v.Assert(rerr == nil, "C15 restore after an accepted swap succeeds")
			if rerr == nil {
				v.Assert(v.And(len(outs) == nOut, len(rsigs) == nOut), "C15 every output of an accepted swap is restorable")
				for i := range rsigs {
					if i < nOut {
						same := v.And(rsigs[i].Amount == sigs[i].Amount, rsigs[i].Id == sigs[i].Id, rsigs[i].C_ == sigs[i].C_, outs[i].B_ == out[i].B_)
						if rsigs[i].DLEQ != nil && sigs[i].DLEQ != nil {
							same = v.And(same, rsigs[i].DLEQ.E == sigs[i].DLEQ.E, rsigs[i].DLEQ.S == sigs[i].DLEQ.S)
						} else {
							same = false
						}
						v.Assert(same, "C15 restore returns the amount, keyset id, C_ and DLEQ originally returned, in request order")
					}
				}
			}
		}
	} else {
		v.Reach("swap-rejected")
		if mode&(vhC01|vhC02) != 0 {
			for i := range out {
				v.Assert(v.ZEq(v.SqlCount(raw, "blind_signatures", "b_", out[i].B_), sigBefore[i]),
					"C01/C02 swap rejected (e.g. by the unique key, the last line of defence) => no signature was stored for its outputs (nothing issued, nothing restorable)")
			}
		}
		if mode&vhC06 != 0 {
			v.Assert(v.SqlSame(raw, s0, s1), "C06 rejected swap leaves every table unchanged")
		}
	}
}

var vhSwapFault = false

// the C01 step with a storage error injected at any one storage call of the swap
func VHarnessSwapC01Fault() {
	vhSwapFault = true
	vhSwapStep(vhC01, 1, 1, 1, 1, 1)
}

func VHarnessSwapC01() { vhSwapStep(vhC01, 2, 1, 2, 1, 1) }
func VHarnessSwapC02() { vhSwapStep(vhC02, 2, 2, 1, 1, 1) }
func VHarnessSwapC06() { vhSwapStep(vhC06, 2, 2, 1, 1, 1) }
func VHarnessSwapC15() { vhSwapStep(vhC15, 2, 2, 1, 1, 1) }

// thorough tier: more pre-existing rows, a second output, a third input
func VHarnessSwapC01Wide() { vhSwapStep(vhC01, 2, 2, 2, 2, 2) }
func VHarnessSwapC02Wide() { vhSwapStep(vhC02, 3, 2, 1, 1, 1) }
func VHarnessSwapC06Wide() { vhSwapStep(vhC06, 3, 2, 1, 1, 1) }
