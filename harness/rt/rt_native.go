// Package verifrt, native variant: used when a counterexample found by the symbolic engine is
// replayed against the real build.  Every nondeterministic value is read from the script
// ($VERIF_SCRIPT, JSON: label -> value) that the engine extracted from the solver model.
package verifrt

import (
	"crypto/sha256"
	"database/sql"
	"encoding/base64"
	"encoding/hex"
	"encoding/json"
	"fmt"
	"math/big"
	"os"
	"runtime/debug"
	"sort"
	"strings"
	"sync"

	"github.com/btcsuite/btcd/btcec/v2/schnorr"
	"github.com/decred/dcrd/dcrec/secp256k1/v4"
	"github.com/fxamacker/cbor/v2"
)

var (
	script   map[string]json.RawMessage
	counters = map[string]int{}
	mu       sync.Mutex
	Failures []string
	tmpdirs  []string
)

type assumeFailed struct{}
type crashNow struct{}

func load() {
	if script != nil {
		return
	}
	script = map[string]json.RawMessage{}
	p := os.Getenv("VERIF_SCRIPT")
	if p == "" {
		return
	}
	b, err := os.ReadFile(p)
	if err != nil {
		panic(err)
	}
	var top struct {
		Values map[string]json.RawMessage `json:"values"`
	}
	if err := json.Unmarshal(b, &top); err != nil {
		panic(err)
	}
	script = top.Values
}

func label(base string) string {
	mu.Lock()
	defer mu.Unlock()
	k := counters[base]
	counters[base] = k + 1
	if k == 0 {
		return base
	}
	return fmt.Sprintf("%s#%d", base, k)
}

func get(base string) (json.RawMessage, bool) {
	load()
	l := label(base)
	v, ok := script[l]
	if !ok {
		fmt.Printf("VERIF-MISSING-LABEL: %s\n", l)
	}
	return v, ok
}

// Run executes one harness natively and reports in the line format the checker parses.
func Run(name string, f func()) (failed bool) {
	defer func() {
		for _, d := range tmpdirs {
			os.RemoveAll(d)
		}
		if r := recover(); r != nil {
			if _, ok := r.(assumeFailed); ok {
				fmt.Println("VERIF-ASSUME-FAILED")
			} else {
				fmt.Printf("VERIF-PANIC: %v\n%s\n", r, firstRepoFrames(string(debug.Stack())))
				failed = true
			}
		}
		fmt.Printf("VERIF-REPLAY-DONE harness=%s failures=%d\n", name, len(Failures))
	}()
	f()
	return len(Failures) > 0
}

func firstRepoFrames(st string) string {
	var out []string
	for _, l := range strings.Split(st, "\n") {
		if strings.Contains(l, "/repo/") || strings.Contains(l, "gonuts") {
			out = append(out, "VERIF-STACK: "+strings.TrimSpace(l))
		}
		if len(out) > 12 {
			break
		}
	}
	return strings.Join(out, "\n")
}

func Native() bool { return true }

func bigOf(base string) *big.Int {
	v, ok := get(base)
	z := new(big.Int)
	if !ok {
		return z
	}
	var s string
	if err := json.Unmarshal(v, &s); err != nil {
		var n json.Number
		if json.Unmarshal(v, &n) == nil {
			s = n.String()
		}
	}
	z.SetString(s, 10)
	return z
}

func U64(l string) uint64 {
	z := bigOf(l)
	z.And(z, new(big.Int).SetUint64(^uint64(0)))
	return z.Uint64()
}
func I64(l string) int64  { return int64(U64(l)) }
func U32(l string) uint32 { return uint32(U64(l)) }
func Bool(l string) bool {
	v, ok := get(l)
	if !ok {
		return false
	}
	var b bool
	json.Unmarshal(v, &b)
	return b
}
func Int(l string, lo, hi int) int {
	v, ok := get(l)
	if !ok {
		return lo
	}
	var n int
	json.Unmarshal(v, &n)
	return n
}
func Str(l string) string {
	v, ok := get(l)
	if !ok {
		return ""
	}
	var node map[string]json.RawMessage
	if err := json.Unmarshal(v, &node); err != nil {
		return ""
	}
	return string(realize(node))
}

const rawAlphabet = "~!@$^&*|;?<>`"

// saltRaw permutes the filler alphabet of unconstrained strings ($VERIF_RAW_SALT): the content of such strings is arbitrary, so a
// replay may try several of them (needed where the outcome depends on a hash of the string, e.g. the hash-to-curve counter)
func saltRaw(b []byte) []byte {
	salt := 0
	fmt.Sscan(os.Getenv("VERIF_RAW_SALT"), &salt)
	if salt == 0 {
		return b
	}
	out := make([]byte, len(b))
	for i, c := range b {
		k := strings.IndexByte(rawAlphabet, c)
		if k < 0 {
			out[i] = c
		} else {
			out[i] = rawAlphabet[(k+salt)%len(rawAlphabet)]
		}
	}
	return out
}

var curveN = secp256k1.S256().N

func scalarOf(dec string) *secp256k1.ModNScalar {
	z, _ := new(big.Int).SetString(dec, 10)
	if z == nil {
		z = big.NewInt(1)
	}
	z.Mod(z, curveN)
	if z.Sign() == 0 {
		z.SetInt64(1)
	}
	var s secp256k1.ModNScalar
	b := z.FillBytes(make([]byte, 32))
	s.SetByteSlice(b)
	return &s
}

func realize(node map[string]json.RawMessage) []byte {
	str := func(k string) string { var s string; json.Unmarshal(node[k], &s); return s }
	sub := func(k string) []byte {
		var n map[string]json.RawMessage
		json.Unmarshal(node[k], &n)
		return realize(n)
	}
	switch {
	case node["lit"] != nil:
		b, _ := hex.DecodeString(str("lit"))
		return b
	case node["raw"] != nil:
		b, _ := hex.DecodeString(str("raw"))
		return saltRaw(b)
	case node["hexenc"] != nil:
		return []byte(hex.EncodeToString(sub("hexenc")))
	case node["b64"] != nil:
		return []byte(base64.URLEncoding.EncodeToString(sub("b64")))
	case node["b64raw"] != nil:
		return []byte(base64.RawURLEncoding.EncodeToString(sub("b64raw")))
	case node["sha256"] != nil:
		h := sha256.Sum256(sub("sha256"))
		return h[:]
	case node["h2c"] != nil:
		return hashToCurve(sub("h2c")).SerializeCompressed()
	case node["pt"] != nil:
		k := scalarOf(str("pt"))
		return secp256k1.NewPrivateKey(k).PubKey().SerializeCompressed()
	case node["scalar"] != nil:
		b := scalarOf(str("scalar")).Bytes()
		return b[:]
	case node["cat"] != nil:
		var parts []map[string]json.RawMessage
		json.Unmarshal(node["cat"], &parts)
		var out []byte
		for _, p := range parts {
			out = append(out, realize(p)...)
		}
		return out
	case node["json"] != nil:
		var n map[string]json.RawMessage
		json.Unmarshal(node["json"], &n)
		return []byte(jsonText(n))
	case node["cbor"] != nil:
		var n map[string]json.RawMessage
		json.Unmarshal(node["cbor"], &n)
		b, err := cbor.Marshal(cborValue(n))
		if err != nil {
			fmt.Printf("VERIF-UNREALISABLE: cbor %v\n", err)
		}
		return b
	case node["sig"] != nil:
		var s struct {
			Priv string                     `json:"priv"`
			Hash map[string]json.RawMessage `json:"hash"`
			Aux  string                     `json:"aux"`
		}
		json.Unmarshal(node["sig"], &s)
		h := realize(s.Hash)
		if len(h) != 32 {
			return make([]byte, 64)
		}
		var aux uint64
		fmt.Sscan(s.Aux, &aux)
		return SchnorrSign(secp256k1.NewPrivateKey(scalarOf(s.Priv)), h, aux).Serialize()
	}
	fmt.Printf("VERIF-UNREALISABLE: %v\n", node)
	return nil
}

func subnode(raw json.RawMessage) map[string]json.RawMessage {
	var n map[string]json.RawMessage
	json.Unmarshal(raw, &n)
	return n
}

// jsonText renders a value tree ({"o":[[key,node]..]}, {"a":[..]}, {"s":str}, {"n":"123"}, {"b":true}, {"z":1}, {"r":raw}) as JSON text.
func jsonText(n map[string]json.RawMessage) string {
	switch {
	case n["o"] != nil:
		var items [][]json.RawMessage
		json.Unmarshal(n["o"], &items)
		var parts []string
		for _, it := range items {
			k, _ := json.Marshal(string(realize(subnode(it[0]))))
			parts = append(parts, string(k)+":"+jsonText(subnode(it[1])))
		}
		return "{" + strings.Join(parts, ",") + "}"
	case n["a"] != nil:
		var items []json.RawMessage
		json.Unmarshal(n["a"], &items)
		var parts []string
		for _, it := range items {
			parts = append(parts, jsonText(subnode(it)))
		}
		return "[" + strings.Join(parts, ",") + "]"
	case n["s"] != nil:
		b, _ := json.Marshal(string(realize(subnode(n["s"]))))
		return string(b)
	case n["y"] != nil:
		b, _ := json.Marshal(realize(subnode(n["y"])))
		return string(b)
	case n["r"] != nil:
		return string(realize(subnode(n["r"])))
	case n["n"] != nil:
		var s string
		json.Unmarshal(n["n"], &s)
		return s
	case n["b"] != nil:
		return string(n["b"])
	}
	return "null"
}

func cborValue(n map[string]json.RawMessage) any {
	switch {
	case n["o"] != nil:
		var items [][]json.RawMessage
		json.Unmarshal(n["o"], &items)
		m := map[string]any{}
		for _, it := range items {
			m[string(realize(subnode(it[0])))] = cborValue(subnode(it[1]))
		}
		return m
	case n["a"] != nil:
		var items []json.RawMessage
		json.Unmarshal(n["a"], &items)
		out := []any{}
		for _, it := range items {
			out = append(out, cborValue(subnode(it)))
		}
		return out
	case n["s"] != nil:
		return string(realize(subnode(n["s"])))
	case n["y"] != nil:
		return realize(subnode(n["y"]))
	case n["n"] != nil:
		var s string
		json.Unmarshal(n["n"], &s)
		z, _ := new(big.Int).SetString(s, 10)
		if z != nil && z.IsUint64() {
			return z.Uint64()
		}
		if z != nil && z.IsInt64() {
			return z.Int64()
		}
		return 0
	case n["b"] != nil:
		var b bool
		json.Unmarshal(n["b"], &b)
		return b
	}
	return nil
}

func Assume(c bool) {
	if !c {
		panic(assumeFailed{})
	}
}
func Assert(c bool, l string) {
	if !c {
		mu.Lock()
		Failures = append(Failures, l)
		mu.Unlock()
		fmt.Printf("VERIF-ASSERT-FAILED: %s\n", l)
	}
}
func Reach(l string) { fmt.Printf("VERIF-REACH: %s\n", l) }
func And(xs ...bool) bool {
	for _, x := range xs {
		if !x {
			return false
		}
	}
	return true
}
func Or(xs ...bool) bool {
	for _, x := range xs {
		if x {
			return true
		}
	}
	return false
}
func Not(x bool) bool        { return !x }
func Implies(a, b bool) bool { return !a || b }
func Trace(msg string)       { fmt.Printf("VERIF-TRACE: %s\n", msg) }

type Z struct{ p *big.Int }

func zz(a Z) *big.Int {
	if a.p == nil {
		return new(big.Int)
	}
	return a.p
}
func ZU(x uint64) Z { return Z{new(big.Int).SetUint64(x)} }
func ZI(x int64) Z  { return Z{big.NewInt(x)} }
func ZAdd(a, b Z) Z { return Z{new(big.Int).Add(zz(a), zz(b))} }
func ZSub(a, b Z) Z { return Z{new(big.Int).Sub(zz(a), zz(b))} }
func ZMul(a, b Z) Z { return Z{new(big.Int).Mul(zz(a), zz(b))} }
func ZCeilDiv(a Z, d uint64) Z {
	D := new(big.Int).SetUint64(d)
	x := new(big.Int).Add(zz(a), new(big.Int).Sub(D, big.NewInt(1)))
	return Z{floorDiv(x, D)}
}
func floorDiv(x, d *big.Int) *big.Int {
	q, m := new(big.Int).DivMod(x, d, new(big.Int))
	_ = m
	return q
}
func ZDiv(a Z, d uint64) Z { return Z{floorDiv(zz(a), new(big.Int).SetUint64(d))} }
func ZLe(a, b Z) bool      { return zz(a).Cmp(zz(b)) <= 0 }
func ZLt(a, b Z) bool      { return zz(a).Cmp(zz(b)) < 0 }
func ZEq(a, b Z) bool      { return zz(a).Cmp(zz(b)) == 0 }
func ZIte(c bool, a, b Z) Z {
	if c {
		return a
	}
	return b
}

func Priv(l string) *secp256k1.PrivateKey {
	z := bigOf(l)
	return secp256k1.NewPrivateKey(scalarOf(z.String()))
}
func SamePriv(a, b *secp256k1.PrivateKey) bool { return a.Key.Equals(&b.Key) }
func SamePub(a, b *secp256k1.PublicKey) bool   { return a.IsEqual(b) }
func BytesEq(a, b []byte) bool                 { return string(a) == string(b) }

// NegPub returns the negated point (the compressed encoding with its parity bit flipped)
func NegPub(a *secp256k1.PublicKey) *secp256k1.PublicKey {
	b := a.SerializeCompressed()
	b[0] ^= 1
	n, err := secp256k1.ParsePubKey(b)
	if err != nil {
		panic(err)
	}
	return n
}

// SchnorrSign signs with a deterministic but aux-dependent nonce so that distinct aux values give
// distinct valid signatures of the same key over the same hash.
func SchnorrSign(p *secp256k1.PrivateKey, hash []byte, aux uint64) *schnorr.Signature {
	var sig *schnorr.Signature
	var err error
	if aux == 0 {
		sig, err = schnorr.Sign(p, hash)
	} else {
		var a [32]byte
		a[0] = byte(aux)
		a[31] = 0x5a
		sig, err = schnorr.Sign(p, hash, schnorr.CustomNonce(a))
	}
	if err != nil {
		panic(err)
	}
	return sig
}

func TempDir() string {
	d, err := os.MkdirTemp("", "verifreplay")
	if err != nil {
		panic(err)
	}
	tmpdirs = append(tmpdirs, d)
	return d
}

// ---------------------------------------------------------------- database helpers (real SQLite)
func SqlDB(dir string) *sql.DB {
	panic("verifrt.SqlDB is model-only; native harnesses open the real database")
}

type colinfo struct {
	name, typ string
	notnull   bool
}

func tableCols(db *sql.DB, table string) []colinfo {
	rows, err := db.Query("PRAGMA table_info(" + table + ")")
	if err != nil {
		panic(err)
	}
	defer rows.Close()
	var out []colinfo
	for rows.Next() {
		var cid, notnull, pk int
		var name, typ string
		var dflt sql.NullString
		if err := rows.Scan(&cid, &name, &typ, &notnull, &dflt, &pk); err != nil {
			panic(err)
		}
		out = append(out, colinfo{name, strings.ToUpper(typ), notnull != 0 || pk != 0})
	}
	return out
}

// SqlSymRows inserts the rows of the symbolic pre-state that the model marked present.
func SqlSymRows(db *sql.DB, table string, n int) {
	cols := tableCols(db, table)
	for i := 0; i < n; i++ {
		pfx := fmt.Sprintf("row.%s.%d.", table, i)
		present := Bool(pfx + "present")
		var names, qs []string
		var args []any
		cells := map[string]rowCell{}
		hasSecret := false
		for _, c := range cols {
			if c.name == "secret" {
				hasSecret = true
			}
		}
		for _, c := range cols {
			names = append(names, c.name)
			qs = append(qs, "?")
			if c.name == "y" && hasSecret {
				args = append(args, nil) // derived below
				continue
			}
			var v any
			switch c.typ {
			case "INTEGER":
				x := I64(pfx + c.name)
				v = x
				cells[c.name] = rowCell{u: uint64(x)}
			case "BOOLEAN":
				x := Bool(pfx + c.name)
				v = x
				cells[c.name] = rowCell{b: x}
			default:
				x := Str(pfx + c.name)
				v = x
				cells[c.name] = rowCell{s: x}
			}
			args = append(args, v)
		}
		if hasSecret {
			for i, c := range cols {
				if c.name == "y" {
					y := hex.EncodeToString(hashToCurve([]byte(cells["secret"].s)).SerializeCompressed())
					args[i] = y
					cells["y"] = rowCell{s: y}
				}
			}
		}
		key := fmt.Sprintf("%s.%d", table, i)
		symRows[key] = cells
		symPresent[key] = present
		if !present {
			continue
		}
		q := "INSERT INTO " + table + " (" + strings.Join(names, ",") + ") VALUES (" + strings.Join(qs, ",") + ")"
		if _, err := db.Exec(q, args...); err != nil {
			fmt.Printf("VERIF-PRESTATE-INSERT-FAILED: %s: %v\n", table, err)
			panic(assumeFailed{})
		}
	}
}

type rowCell struct {
	s string
	u uint64
	b bool
}

var symRows = map[string]map[string]rowCell{}
var symPresent = map[string]bool{}

func SqlRowPresent(db *sql.DB, table string, i int) bool {
	return symPresent[fmt.Sprintf("%s.%d", table, i)]
}
func SqlRowStr(db *sql.DB, table string, i int, col string) string {
	return symRows[fmt.Sprintf("%s.%d", table, i)][col].s
}
func SqlRowU64(db *sql.DB, table string, i int, col string) uint64 {
	return symRows[fmt.Sprintf("%s.%d", table, i)][col].u
}

func PickStr(idx uint64, options ...string) string   { return options[idx] }
func PickU64(idx uint64, options ...uint64) uint64   { return options[idx] }
func PickBytes(idx uint64, options ...[]byte) []byte { return options[idx] }
func PickPriv(idx uint64, options ...*secp256k1.PrivateKey) *secp256k1.PrivateKey {
	return options[idx]
}

// UF64: the graph of the uninterpreted function as the model fixed it ("uf.<name>": [[arg,res],..])
func UF64(name string, x uint64) uint64 {
	load()
	raw, ok := script["uf."+name]
	if !ok {
		return 0
	}
	var pairs [][]string
	json.Unmarshal(raw, &pairs)
	for _, p := range pairs {
		a, _ := new(big.Int).SetString(p[0], 10)
		if a != nil && a.IsUint64() && a.Uint64() == x {
			r, _ := new(big.Int).SetString(p[1], 10)
			return r.Uint64()
		}
	}
	return 0
}

func hashToCurve(msg []byte) *secp256k1.PublicKey {
	h := sha256.Sum256(append([]byte("Secp256k1_HashToCurve_Cashu_"), msg...))
	for c := uint32(0); c < 1<<16; c++ {
		cb := []byte{byte(c), byte(c >> 8), byte(c >> 16), byte(c >> 24)}
		hh := sha256.Sum256(append(h[:], cb...))
		p, err := secp256k1.ParsePubKey(append([]byte{2}, hh[:]...))
		if err == nil {
			return p
		}
	}
	panic("no point")
}

func dumpTables(db *sql.DB) string {
	rows, err := db.Query("SELECT name FROM sqlite_master WHERE type='table' AND name NOT LIKE 'sqlite_%' AND name != 'schema_migrations' ORDER BY name")
	if err != nil {
		panic(err)
	}
	var names []string
	for rows.Next() {
		var n string
		rows.Scan(&n)
		names = append(names, n)
	}
	rows.Close()
	var sb strings.Builder
	for _, t := range names {
		r, err := db.Query("SELECT * FROM " + t)
		if err != nil {
			panic(err)
		}
		cs, _ := r.Columns()
		var lines []string
		for r.Next() {
			vals := make([]any, len(cs))
			ptrs := make([]any, len(cs))
			for i := range vals {
				ptrs[i] = &vals[i]
			}
			r.Scan(ptrs...)
			lines = append(lines, fmt.Sprintf("%q", vals))
		}
		r.Close()
		sort.Strings(lines)
		sb.WriteString(t + ":" + strings.Join(lines, "|") + "\n")
	}
	return sb.String()
}

var snapshots []string

func SqlSnapshot(db *sql.DB) int {
	snapshots = append(snapshots, dumpTables(db))
	return len(snapshots) - 1
}
func SqlSame(db *sql.DB, a, b int) bool { return snapshots[a] == snapshots[b] }
func SqlCount(db *sql.DB, table string, col string, val string) Z {
	var n int64
	if err := db.QueryRow("SELECT COUNT(*) FROM "+table+" WHERE "+col+" = ?", val).Scan(&n); err != nil {
		panic(err)
	}
	return ZI(n)
}

// ---------------------------------------------------------------- threads and crash points
// The native scheduler runs harness threads as goroutines that block in Yield() (called by the
// in-package storage/Lightning wrappers before every call) until the script's schedule grants them.
type thread struct {
	id      int
	wake    chan struct{}
	parked  chan string
	done    bool
	crashed bool
}

var (
	threads  []*thread
	current  *thread
	crashAt  = -1
	faultAt  = -1
	crashCnt = 0
	hitAt    = ""
)

func HitAt() string { return hitAt }

func Go(f func()) {
	t := &thread{id: len(threads), wake: make(chan struct{}), parked: make(chan string)}
	threads = append(threads, t)
	go func() {
		<-t.wake
		defer func() {
			if r := recover(); r != nil {
				if _, ok := r.(crashNow); ok {
					t.crashed = true
				} else {
					fmt.Printf("VERIF-PANIC: %v\n%s\n", r, firstRepoFrames(string(debug.Stack())))
					mu.Lock()
					Failures = append(Failures, "panic")
					mu.Unlock()
				}
			}
			t.done = true
			t.parked <- "done"
		}()
		current = t
		f()
	}()
}

// Yield is called by wrappers at every scheduling point (storage / Lightning call); it returns true when a
// storage fault is to be injected at this point.
func Yield(tag string) bool {
	t := current
	if t == nil {
		return false
	}
	if crashAt >= 0 || faultAt >= 0 {
		k := crashCnt
		crashCnt++
		if k == crashAt {
			hitAt = tag
			panic(crashNow{})
		}
		if k == faultAt {
			hitAt = tag
			return true
		}
		return false
	}
	t.parked <- tag
	<-t.wake
	current = t
	return false
}

func Join(preempt int) {
	var last *thread
	for {
		var live []*thread
		for _, t := range threads {
			if !t.done {
				live = append(live, t)
			}
		}
		if len(live) == 0 {
			break
		}
		opts := live
		t := opts[0]
		if len(opts) > 1 {
			k := Int("sched", 0, len(threads)-1)
			found := false
			for _, o := range opts {
				if o.id == k {
					t = o
					found = true
				}
			}
			if !found {
				fmt.Printf("VERIF-SCHED-DIVERGED: thread %d not runnable\n", k)
				panic(assumeFailed{})
			}
		}
		_ = last
		last = t
		t.wake <- struct{}{}
		tag := <-t.parked
		fmt.Printf("VERIF-SCHED: thread %d -> %s\n", t.id, tag)
	}
	threads = nil
	current = nil
}

// CrashRun runs f and kills it (panic unwinding; the harness discards the in-memory state) before its k-th
// scheduling point, k read from the script; returns whether it crashed.
func CrashRun(f func()) (crashed bool) {
	k := Int("crashAt", -1, 1<<20)
	hitAt = ""
	crashAt, faultAt, crashCnt = k, -1, 0
	if k < 0 {
		crashAt = 1 << 30
	}
	current = &thread{id: 0}
	defer func() {
		current = nil
		crashAt = -1
		if r := recover(); r != nil {
			if _, ok := r.(crashNow); ok {
				crashed = true
				return
			}
			panic(r)
		}
	}()
	f()
	return false
}

// FaultRun runs f with a storage error injected at its k-th scheduling point (k from the script).
func FaultRun(f func()) bool {
	k := Int("faultAt", -1, 1<<20)
	hitAt = ""
	crashAt, faultAt, crashCnt = -1, k, 0
	if k < 0 {
		faultAt = 1 << 30
	}
	current = &thread{id: 0}
	defer func() { current = nil; faultAt = -1 }()
	f()
	return hitAt != ""
}
