// Package verifrt is the harness API (DESIGN.md Appendix D). This file is the variant seen by the
// symbolic engine: bodies are trivial, every function is intercepted by name.
package verifrt

import (
	"database/sql"

	"github.com/btcsuite/btcd/btcec/v2/schnorr"
	"github.com/decred/dcrd/dcrec/secp256k1/v4"
)

func Native() bool                     { return false }
func U64(label string) uint64          { return 0 }
func I64(label string) int64           { return 0 }
func U32(label string) uint32          { return 0 }
func Bool(label string) bool           { return false }
func Int(label string, lo, hi int) int { return lo }
func Str(label string) string          { return "" }
func Assume(c bool)                    {}
func Assert(c bool, label string)      {}
func Reach(label string)               {}
func And(xs ...bool) bool              { return false }
func Or(xs ...bool) bool               { return false }
func Not(x bool) bool                  { return false }
func Implies(a, b bool) bool           { return false }

// Z is a mathematical (unbounded) integer used by oracles so that the reference cannot wrap.
type Z struct{ opaque int }

func ZU(x uint64) Z            { return Z{} }
func ZI(x int64) Z             { return Z{} }
func ZAdd(a, b Z) Z            { return Z{} }
func ZSub(a, b Z) Z            { return Z{} }
func ZMul(a, b Z) Z            { return Z{} }
func ZCeilDiv(a Z, d uint64) Z { return Z{} }
func ZDiv(a Z, d uint64) Z     { return Z{} }
func ZLe(a, b Z) bool          { return false }
func ZLt(a, b Z) bool          { return false }
func ZEq(a, b Z) bool          { return false }
func ZIte(c bool, a, b Z) Z    { return Z{} }

// crypto objects (constructive: DESIGN.md section 4.2)
func Priv(label string) *secp256k1.PrivateKey  { return nil }
func SamePriv(a, b *secp256k1.PrivateKey) bool { return false }
func SamePub(a, b *secp256k1.PublicKey) bool   { return false }
func BytesEq(a, b []byte) bool                 { return false }

// NegPub returns the negated point (the compressed encoding with its parity bit flipped)
func NegPub(a *secp256k1.PublicKey) *secp256k1.PublicKey                              { return a }
func SchnorrSign(p *secp256k1.PrivateKey, hash []byte, aux uint64) *schnorr.Signature { return nil }

// database
func SqlDB(dir string) *sql.DB                                     { return nil }
func SqlSymRows(db *sql.DB, table string, n int)                   {}
func SqlCount(db *sql.DB, table string, col string, val string) Z  { return Z{} }
func SqlSnapshot(db *sql.DB) int                                   { return 0 }
func SqlSame(db *sql.DB, a, b int) bool                            { return false }
func TempDir() string                                              { return "" }
func SqlRowPresent(db *sql.DB, table string, i int) bool           { return false }
func SqlRowStr(db *sql.DB, table string, i int, col string) string { return "" }
func SqlRowU64(db *sql.DB, table string, i int, col string) uint64 { return 0 }

// Pick*: select one of the options by a (symbolic) index without forking; idx must be < len(options)
func PickStr(idx uint64, options ...string) string                                { return "" }
func PickU64(idx uint64, options ...uint64) uint64                                { return 0 }
func PickBytes(idx uint64, options ...[]byte) []byte                              { return nil }
func PickPriv(idx uint64, options ...*secp256k1.PrivateKey) *secp256k1.PrivateKey { return nil }

// UF64 is an uninterpreted function uint64 -> uint64 (same argument => same result)
func UF64(name string, x uint64) uint64 { return 0 }

// threads / crash points
func Go(f func())            {}
func Join(preempt int)       {}
func CrashRun(f func()) bool { return false }
func FaultRun(f func()) bool { return false }
func HitAt() string          { return "" }
func Trace(msg string)       {}

// Yield marks a scheduling point in native wrappers; returns true if a storage fault is to be injected here
func Yield(tag string) bool { return false }
