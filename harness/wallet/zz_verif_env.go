package wallet

// Harness environment of package wallet, executed both by the symbolic engine and natively (replay):
//  - vhDB: an in-memory storage.WalletDB keyed the way bolt.go keys its buckets (proofs by secret, pending by Y,
//    counter per keyset) - bolt.go itself is outside the claim (DESIGN.md 4.3);
//  - vhMint: an honest-contract fake mint behind wallet/client at the HTTP level (vhHTTP): every request the wallet makes
//    goes through the real client.go (JSON marshalling) and arrives here as method + URL + body bytes;
//  - vhNewWallet: a Wallet built from unexported fields.

import (
	"encoding/binary"
	"encoding/hex"
	"encoding/json"
	"fmt"
	"io"
	"net/http"
	"net/http/httptest"
	"strings"

	"github.com/btcsuite/btcd/btcutil/hdkeychain"
	"github.com/btcsuite/btcd/chaincfg"
	"github.com/decred/dcrd/dcrec/secp256k1/v4"
	"github.com/elnosh/gonuts/cashu"
	"github.com/elnosh/gonuts/cashu/nuts/nut01"
	"github.com/elnosh/gonuts/cashu/nuts/nut02"
	"github.com/elnosh/gonuts/cashu/nuts/nut03"
	"github.com/elnosh/gonuts/cashu/nuts/nut04"
	"github.com/elnosh/gonuts/cashu/nuts/nut05"
	"github.com/elnosh/gonuts/cashu/nuts/nut06"
	"github.com/elnosh/gonuts/cashu/nuts/nut07"
	"github.com/elnosh/gonuts/cashu/nuts/nut09"
	"github.com/elnosh/gonuts/crypto"
	v "github.com/elnosh/gonuts/verifrt"
	"github.com/elnosh/gonuts/wallet/storage"
)

// ---------------------------------------------------------------------------------------- fake WalletDB
type vhDB struct {
	seed     []byte
	mnemonic string
	proofs   cashu.Proofs
	pending  []storage.DBProof
	keysets  []crypto.WalletKeyset
	mintQ    []storage.MintQuote
	meltQ    []storage.MeltQuote
	Calls    []string // trace of mutating calls
}

func (d *vhDB) SaveMnemonicSeed(m string, s []byte) { d.mnemonic, d.seed = m, s }
func (d *vhDB) GetSeed() []byte                     { return d.seed }
func (d *vhDB) GetMnemonic() string                 { return d.mnemonic }
func (d *vhDB) SaveProofs(ps cashu.Proofs) error {
	v.Yield("WalletDB.SaveProofs")
	d.Calls = append(d.Calls, "SaveProofs")
	for _, p := range ps {
		replaced := false
		for i := range d.proofs {
			if d.proofs[i].Secret == p.Secret { // bolt: Put under the secret key replaces
				d.proofs[i] = p
				replaced = true
				break
			}
		}
		if !replaced {
			d.proofs = append(d.proofs, p)
		}
	}
	return nil
}
func (d *vhDB) GetProofs() cashu.Proofs { return append(cashu.Proofs{}, d.proofs...) }
func (d *vhDB) GetProofsByKeysetId(id string) cashu.Proofs {
	out := cashu.Proofs{}
	for _, p := range d.proofs {
		if p.Id == id {
			out = append(out, p)
		}
	}
	return out
}
func (d *vhDB) DeleteProof(secret string) error {
	v.Yield("WalletDB.DeleteProof")
	d.Calls = append(d.Calls, "DeleteProof")
	for i := range d.proofs {
		if d.proofs[i].Secret == secret {
			d.proofs = append(append(cashu.Proofs{}, d.proofs[:i]...), d.proofs[i+1:]...)
			return nil
		}
	}
	return fmt.Errorf("proof does not exist")
}
func vhToDBProof(p cashu.Proof, quote string) storage.DBProof {
	Y, _ := crypto.HashToCurve([]byte(p.Secret))
	return storage.DBProof{Y: hex.EncodeToString(Y.SerializeCompressed()), Amount: p.Amount, Id: p.Id, Secret: p.Secret, C: p.C, DLEQ: p.DLEQ, MeltQuoteId: quote}
}
func (d *vhDB) AddPendingProofs(ps cashu.Proofs) error {
	v.Yield("WalletDB.AddPendingProofs")
	d.Calls = append(d.Calls, "AddPendingProofs")
	for _, p := range ps {
		d.pending = append(d.pending, vhToDBProof(p, ""))
	}
	return nil
}
func (d *vhDB) AddPendingProofsByQuoteId(ps cashu.Proofs, q string) error {
	v.Yield("WalletDB.AddPendingProofsByQuoteId")
	d.Calls = append(d.Calls, "AddPendingProofsByQuoteId")
	for _, p := range ps {
		d.pending = append(d.pending, vhToDBProof(p, q))
	}
	return nil
}
func (d *vhDB) GetPendingProofs() []storage.DBProof { return append([]storage.DBProof{}, d.pending...) }
func (d *vhDB) GetPendingProofsByQuoteId(q string) []storage.DBProof {
	out := []storage.DBProof{}
	for _, p := range d.pending {
		if p.MeltQuoteId == q {
			out = append(out, p)
		}
	}
	return out
}
func (d *vhDB) DeletePendingProofs(ys []string) error {
	v.Yield("WalletDB.DeletePendingProofs")
	d.Calls = append(d.Calls, "DeletePendingProofs")
	var keep []storage.DBProof
	for _, p := range d.pending {
		hit := false
		for _, y := range ys {
			if p.Y == y {
				hit = true
			}
		}
		if !hit {
			keep = append(keep, p)
		}
	}
	d.pending = keep
	return nil
}
func (d *vhDB) DeletePendingProofsByQuoteId(q string) error {
	v.Yield("WalletDB.DeletePendingProofsByQuoteId")
	d.Calls = append(d.Calls, "DeletePendingProofsByQuoteId")
	var keep []storage.DBProof
	for _, p := range d.pending {
		if p.MeltQuoteId != q {
			keep = append(keep, p)
		}
	}
	d.pending = keep
	return nil
}
func (d *vhDB) SaveKeyset(k *crypto.WalletKeyset) error {
	v.Yield("WalletDB.SaveKeyset")
	for i := range d.keysets {
		if d.keysets[i].Id == k.Id {
			d.keysets[i] = *k
			return nil
		}
	}
	d.keysets = append(d.keysets, *k)
	return nil
}
func (d *vhDB) GetKeysets() crypto.KeysetsMap {
	m := crypto.KeysetsMap{}
	for _, k := range d.keysets {
		m[k.MintURL] = append(m[k.MintURL], k)
	}
	return m
}
func (d *vhDB) GetKeyset(id string) *crypto.WalletKeyset {
	for i := range d.keysets {
		if d.keysets[i].Id == id {
			k := d.keysets[i]
			return &k
		}
	}
	return nil
}
func (d *vhDB) IncrementKeysetCounter(id string, n uint32) error {
	v.Yield("WalletDB.IncrementKeysetCounter")
	d.Calls = append(d.Calls, "IncrementKeysetCounter")
	for i := range d.keysets {
		if d.keysets[i].Id == id {
			d.keysets[i].Counter += n
			return nil
		}
	}
	return fmt.Errorf("keyset does not exist")
}
func (d *vhDB) GetKeysetCounter(id string) uint32 {
	for i := range d.keysets {
		if d.keysets[i].Id == id {
			return d.keysets[i].Counter
		}
	}
	return 0
}
func (d *vhDB) UpdateKeysetMintURL(o, n string) error { return nil }
func (d *vhDB) SaveMintQuote(q storage.MintQuote) error {
	v.Yield("WalletDB.SaveMintQuote")
	for i := range d.mintQ {
		if d.mintQ[i].QuoteId == q.QuoteId {
			d.mintQ[i] = q
			return nil
		}
	}
	d.mintQ = append(d.mintQ, q)
	return nil
}
func (d *vhDB) GetMintQuotes() []storage.MintQuote { return d.mintQ }
func (d *vhDB) GetMintQuoteById(id string) *storage.MintQuote {
	for i := range d.mintQ {
		if d.mintQ[i].QuoteId == id {
			q := d.mintQ[i]
			return &q
		}
	}
	return nil
}
func (d *vhDB) SaveMeltQuote(q storage.MeltQuote) error {
	v.Yield("WalletDB.SaveMeltQuote")
	d.Calls = append(d.Calls, "SaveMeltQuote")
	for i := range d.meltQ {
		if d.meltQ[i].QuoteId == q.QuoteId {
			d.meltQ[i] = q
			return nil
		}
	}
	d.meltQ = append(d.meltQ, q)
	return nil
}
func (d *vhDB) GetMeltQuotes() []storage.MeltQuote { return d.meltQ }
func (d *vhDB) GetMeltQuoteById(id string) *storage.MeltQuote {
	for i := range d.meltQ {
		if d.meltQ[i].QuoteId == id {
			q := d.meltQ[i]
			return &q
		}
	}
	return nil
}
func (d *vhDB) Close() error { return nil }

// ---------------------------------------------------------------------------------------- fake mint
var vhKsIds = []string{"00a1a1a1a1a1a1a1", "00b2b2b2b2b2b2b2"}

const vhMaxOrder = 8 // denominations 1 .. 128 (stated bound)

type vhReq struct {
	Method, Path string
	Body         []byte
}

type vhMint struct {
	Keys         map[string]map[uint64]*secp256k1.PrivateKey
	Ppk          map[string]uint
	Active       string
	Spent        []string // secrets of consumed inputs, in order
	Locked       []string // secrets locked by a melt whose payment is in flight (state PENDING)
	Surplus      uint64   // what swaps paid beyond outputs + input fee (an honest mint keeps it; the wallet should never pay it)
	SpentAmounts []uint64
	Signed       []cashu.BlindedMessage
	Sigs         cashu.BlindedSignatures
	Reqs         []vhReq
	MintQ        map[string]*vhMintQuote
	MeltQ        map[string]*vhMeltQuote
	Refuse       bool // answer the next state-changing request with an error (honest refusal)
	srv          *httptest.Server
	URL          string
}

type vhMintQuote struct {
	Amount uint64
	State  nut04.State
}
type vhMeltQuote struct {
	Amount, FeeReserve uint64
	State              nut05.State
	Outcome            int    // scripted outcome of the payment: 0 paid, 1 pending, 2 failed (unpaid)
	GiveChange         bool   // NUT-08 supported by this mint (harnesses that do not set it see a mint without change, as gonuts' own mint)
	ActualFee          uint64 // what the payment really cost (<= FeeReserve); the rest is returned as NUT-08 change
	Change             cashu.BlindedSignatures
	Blank              cashu.BlindedMessages // blank outputs of the melt request
	Lose               int                   // transport fault on POST /v1/melt/bolt11: 0 none, 1 the request never reaches the mint, 2 the response is lost
}

var vhTheMint *vhMint

var vhDerivedIds = false // keyset ids derived from the keys (NUT-02), needed where the wallet re-derives them (restore)

func vhIdIndex(id string) uint64 {
	b, err := hex.DecodeString(id)
	if err != nil || len(b) < 8 {
		return 0
	}
	return binary.BigEndian.Uint64(b) % (1<<31 - 1)
}

func vhNewMint(ppkActive, ppkInactive uint) *vhMint {
	m := &vhMint{Keys: map[string]map[uint64]*secp256k1.PrivateKey{}, Ppk: map[string]uint{},
		MintQ: map[string]*vhMintQuote{}, MeltQ: map[string]*vhMeltQuote{}, URL: "http://vhmint"}
	ids := []string{"00a1a1a1a1a1a1a1", "00b2b2b2b2b2b2b2"}
	for n, name := range ids {
		keys := map[uint64]*secp256k1.PrivateKey{}
		pubs := crypto.PublicKeys{}
		for i := 0; i < vhMaxOrder; i++ {
			k := v.Priv(fmt.Sprintf("mintkey.%s.%d", name, i))
			keys[uint64(1)<<uint(i)] = k
			pubs[uint64(1)<<uint(i)] = k.PubKey()
		}
		id := name
		if vhDerivedIds {
			id = crypto.DeriveKeysetId(pubs)
		}
		ids[n] = id
		m.Keys[id] = keys
	}
	v.Assume(ids[0] != ids[1]) // a mint's keysets have distinct ids (primary key of its keysets table)
	if vhDerivedIds {
		// stated: the ids do not collide in the NUT-13 path index (id mod 2^31-1); a collision (2^-31 per pair) makes two
		// keysets share their deterministic secrets by specification
		v.Assume(vhIdIndex(ids[0]) != vhIdIndex(ids[1]))
	}
	vhKsIds = ids
	m.Active = ids[0]
	m.Ppk[ids[0]], m.Ppk[ids[1]] = ppkActive, ppkInactive
	vhTheMint = m
	if v.Native() {
		if _, wrapped := http.DefaultTransport.(vhTransport); !wrapped {
			http.DefaultTransport = vhTransport{in: http.DefaultTransport}
		}
		m.srv = httptest.NewServer(http.HandlerFunc(func(w http.ResponseWriter, r *http.Request) {
			body, _ := io.ReadAll(r.Body)
			status, resp := vhHTTP(r.Method, r.URL.Path, body)
			w.WriteHeader(status)
			w.Write(resp)
		}))
		m.URL = m.srv.URL
	}
	return m
}

// every request of the real client passes here in the caller's goroutine: a scheduling / crash point before it goes out
type vhTransport struct{ in http.RoundTripper }

func (t vhTransport) RoundTrip(r *http.Request) (*http.Response, error) {
	v.Yield("HTTP." + strings.ToLower(r.Method))
	return t.in.RoundTrip(r)
}

func (m *vhMint) pubKeys(id string) crypto.PublicKeys {
	pk := crypto.PublicKeys{}
	for a, k := range m.Keys[id] {
		pk[a] = k.PubKey()
	}
	return pk
}

func (m *vhMint) walletKeyset(id string, counter uint32) crypto.WalletKeyset {
	return crypto.WalletKeyset{Id: id, MintURL: m.URL, Unit: "sat", Active: id == m.Active, PublicKeys: m.pubKeys(id), Counter: counter, InputFeePpk: m.Ppk[id]}
}

func vhJSON(status int, x any) (int, []byte) {
	b, err := json.Marshal(x)
	if err != nil {
		return 500, []byte("marshal error")
	}
	return status, b
}

func vhErr(msg string, code cashu.CashuErrCode) (int, []byte) {
	return vhJSON(400, cashu.Error{Detail: msg, Code: code})
}

func (m *vhMint) fee(in cashu.Proofs) uint64 {
	var ppk uint
	for _, p := range in {
		ppk += m.Ppk[p.Id]
	}
	return uint64((ppk + 999) / 1000)
}

func (m *vhMint) sign(outs cashu.BlindedMessages) (cashu.BlindedSignatures, bool) {
	sigs := make(cashu.BlindedSignatures, len(outs))
	for i, o := range outs {
		if o.Id != m.Active {
			return nil, false
		}
		k, ok := m.Keys[o.Id][o.Amount]
		if !ok {
			return nil, false
		}
		bb, err := hex.DecodeString(o.B_)
		if err != nil {
			return nil, false
		}
		B_, err := secp256k1.ParsePubKey(bb)
		if err != nil {
			return nil, false
		}
		C_ := crypto.SignBlindedMessage(B_, k)
		e, s := crypto.GenerateDLEQ(k, B_, C_)
		sigs[i] = cashu.BlindedSignature{Amount: o.Amount, Id: o.Id, C_: hex.EncodeToString(C_.SerializeCompressed()),
			DLEQ: &cashu.DLEQProof{E: hex.EncodeToString(e.Serialize()), S: hex.EncodeToString(s.Serialize())}}
	}
	m.Signed = append(m.Signed, outs...)
	m.Sigs = append(m.Sigs, sigs...)
	return sigs, true
}

// NUT-08: the part of the fee reserve the payment did not need is returned on the blank outputs of the melt request
// (stated bound: reserve <= 2, so the overpaid fee is a single denomination)
func (m *vhMint) giveChange(q *vhMeltQuote) {
	if !q.GiveChange || q.FeeReserve <= q.ActualFee || len(q.Blank) == 0 || len(q.Change) > 0 {
		return
	}
	o := q.Blank[0]
	o.Amount = q.FeeReserve - q.ActualFee
	if sigs, ok := m.sign(cashu.BlindedMessages{o}); ok {
		q.Change = sigs
	}
}

func (m *vhMint) isSpent(secret string) bool {
	r := false
	for _, s := range m.Spent {
		r = v.Or(r, s == secret)
	}
	return r
}

// vhHTTP is the fake mint: an honest implementation of the NUT contracts the wallet relies on.
func vhHTTP(method, url string, body []byte) (int, []byte) {
	m := vhTheMint
	path := url
	if i := strings.Index(url, "/v1/"); i >= 0 {
		path = url[i:]
	}
	m.Reqs = append(m.Reqs, vhReq{Method: method, Path: path, Body: body})
	switch {
	case path == "/v1/info":
		info := nut06.MintInfo{Name: "vhmint"}
		info.Nuts.Nut07.Supported = true
		info.Nuts.Nut09.Supported = true
		return vhJSON(200, info)
	case path == "/v1/keysets":
		var r nut02.GetKeysetsResponse
		for _, id := range vhKsIds {
			r.Keysets = append(r.Keysets, nut02.Keyset{Id: id, Unit: "sat", Active: id == m.Active, InputFeePpk: m.Ppk[id]})
		}
		return vhJSON(200, r)
	case path == "/v1/keys":
		return vhJSON(200, nut01.GetKeysResponse{Keysets: []nut01.Keyset{{Id: m.Active, Unit: "sat", Keys: m.pubKeys(m.Active)}}})
	case strings.HasPrefix(path, "/v1/keys/"):
		id := path[len("/v1/keys/"):]
		if _, ok := m.Keys[id]; !ok {
			return vhErr("unknown keyset", cashu.UnknownKeysetErrCode)
		}
		return vhJSON(200, nut01.GetKeysResponse{Keysets: []nut01.Keyset{{Id: id, Unit: "sat", Keys: m.pubKeys(id)}}})
	case path == "/v1/swap":
		var req nut03.PostSwapRequest
		if err := json.Unmarshal(body, &req); err != nil {
			return vhErr("bad request", cashu.StandardErrCode)
		}
		if m.Refuse {
			m.Refuse = false
			return vhErr("refused", cashu.StandardErrCode)
		}
		var in, out uint64
		for _, p := range req.Inputs {
			in += p.Amount
			if m.isSpent(p.Secret) {
				return vhErr("proof already used", cashu.ProofAlreadyUsedErrCode)
			}
			for _, l := range m.Locked {
				if l == p.Secret {
					return vhErr("proofs are pending", cashu.StandardErrCode)
				}
			}
		}
		for _, o := range req.Outputs {
			out += o.Amount
		}
		if in < out+m.fee(req.Inputs) {
			return vhErr("insufficient inputs", cashu.InsufficientProofAmountErrCode)
		}
		sigs, ok := m.sign(req.Outputs)
		if !ok {
			return vhErr("cannot sign outputs", cashu.StandardErrCode)
		}
		for _, p := range req.Inputs {
			m.Spent = append(m.Spent, p.Secret)
			m.SpentAmounts = append(m.SpentAmounts, p.Amount)
		}
		m.Surplus += in - out - m.fee(req.Inputs)
		return vhJSON(200, nut03.PostSwapResponse{Signatures: sigs})
	case strings.HasPrefix(path, "/v1/mint/quote/bolt11/"):
		id := path[len("/v1/mint/quote/bolt11/"):]
		q, ok := m.MintQ[id]
		if !ok {
			return vhErr("quote does not exist", cashu.MeltQuoteErrCode)
		}
		return vhJSON(200, &nut04.PostMintQuoteBolt11Response{Quote: id, Request: "lnbc-" + id, Amount: q.Amount, Unit: "sat", State: q.State, Expiry: 1 << 40})
	case path == "/v1/mint/bolt11":
		var req nut04.PostMintBolt11Request
		if err := json.Unmarshal(body, &req); err != nil {
			return vhErr("bad request", cashu.StandardErrCode)
		}
		q, ok := m.MintQ[req.Quote]
		if !ok || q.State != nut04.Paid || m.Refuse {
			m.Refuse = false
			return vhErr("quote not mintable", cashu.MintQuoteRequestNotPaidErrCode)
		}
		var out uint64
		for _, o := range req.Outputs {
			out += o.Amount
		}
		if out > q.Amount {
			return vhErr("outputs over quote amount", cashu.StandardErrCode)
		}
		sigs, ok := m.sign(req.Outputs)
		if !ok {
			return vhErr("cannot sign outputs", cashu.StandardErrCode)
		}
		q.State = nut04.Issued
		return vhJSON(200, nut04.PostMintBolt11Response{Signatures: sigs})
	case strings.HasPrefix(path, "/v1/melt/quote/bolt11/"):
		id := path[len("/v1/melt/quote/bolt11/"):]
		q, ok := m.MeltQ[id]
		if !ok {
			return vhErr("quote does not exist", cashu.MeltQuoteErrCode)
		}
		return vhJSON(200, &nut05.PostMeltQuoteBolt11Response{Quote: id, Amount: q.Amount, FeeReserve: q.FeeReserve, State: q.State, Unit: "sat", Expiry: 1 << 40, Change: q.Change})
	case path == "/v1/melt/bolt11":
		var req nut05.PostMeltBolt11Request
		if err := json.Unmarshal(body, &req); err != nil {
			return vhErr("bad request", cashu.StandardErrCode)
		}
		q, ok := m.MeltQ[req.Quote]
		if ok && q.Lose == 1 {
			q.Lose = 0
			return 502, []byte("bad gateway")
		}
		if !ok || q.State != nut05.Unpaid {
			return vhErr("quote not meltable", cashu.MeltQuoteErrCode)
		}
		var in uint64
		for _, p := range req.Inputs {
			in += p.Amount
			if m.isSpent(p.Secret) {
				return vhErr("proof already used", cashu.ProofAlreadyUsedErrCode)
			}
		}
		if in < q.Amount+q.FeeReserve+m.fee(req.Inputs) {
			return vhErr("insufficient inputs", cashu.InsufficientProofAmountErrCode)
		}
		q.Blank = req.Outputs
		switch q.Outcome {
		case 0:
			q.State = nut05.Paid
			for _, p := range req.Inputs {
				m.Spent = append(m.Spent, p.Secret)
				m.SpentAmounts = append(m.SpentAmounts, p.Amount)
			}
			m.giveChange(q)
		case 1:
			q.State = nut05.Pending
		default:
			q.State = nut05.Unpaid
		}
		if q.Lose == 2 {
			q.Lose = 0
			return 502, []byte("bad gateway")
		}
		return vhJSON(200, &nut05.PostMeltQuoteBolt11Response{Quote: req.Quote, Amount: q.Amount, FeeReserve: q.FeeReserve, State: q.State, Unit: "sat", Preimage: "00", Change: q.Change})
	case path == "/v1/checkstate":
		var req nut07.PostCheckStateRequest
		if err := json.Unmarshal(body, &req); err != nil {
			return vhErr("bad request", cashu.StandardErrCode)
		}
		var resp nut07.PostCheckStateResponse
		for _, y := range req.Ys {
			st := nut07.Unspent
			for _, s := range m.Spent {
				Y, _ := crypto.HashToCurve([]byte(s))
				if hex.EncodeToString(Y.SerializeCompressed()) == y {
					st = nut07.Spent
				}
			}
			for _, s := range m.Locked {
				Y, _ := crypto.HashToCurve([]byte(s))
				if st == nut07.Unspent && hex.EncodeToString(Y.SerializeCompressed()) == y {
					st = nut07.Pending
				}
			}
			resp.States = append(resp.States, nut07.ProofState{Y: y, State: st})
		}
		return vhJSON(200, resp)
	case path == "/v1/restore":
		var req nut09.PostRestoreRequest
		if err := json.Unmarshal(body, &req); err != nil {
			return vhErr("bad request", cashu.StandardErrCode)
		}
		var resp nut09.PostRestoreResponse
		for _, o := range req.Outputs {
			for i, s := range m.Signed {
				if s.B_ == o.B_ {
					resp.Outputs = append(resp.Outputs, o)
					resp.Signatures = append(resp.Signatures, m.Sigs[i])
					break
				}
			}
		}
		return vhJSON(200, resp)
	}
	return 404, []byte("not found")
}

// ---------------------------------------------------------------------------------------- wallet
type vhWalletEnv struct {
	w       *Wallet
	db      *vhDB
	mint    *vhMint
	amounts map[string]uint64
}

var vhSeed = []byte("0123456789abcdef0123456789abcdef0123456789abcdef0123456789abcdef")

func vhNewWallet(ppkActive, ppkInactive uint, counter uint32) *vhWalletEnv {
	m := vhNewMint(ppkActive, ppkInactive)
	db := &vhDB{}
	master, err := hdkeychain.NewMaster(vhSeed, &chaincfg.MainNetParams)
	v.Assume(err == nil)
	db.SaveMnemonicSeed("verif mnemonic", vhSeed)
	act, inact := m.walletKeyset(vhKsIds[0], counter), m.walletKeyset(vhKsIds[1], 0)
	db.SaveKeyset(&act)
	db.SaveKeyset(&inact)
	priv, perr := DeriveP2PK(master)
	v.Assume(perr == nil)
	w := &Wallet{db: db, unit: cashu.Sat, defaultMint: m.URL, masterKey: master, privateKey: priv,
		mints: map[string]walletMint{m.URL: {mintURL: m.URL, activeKeyset: act, inactiveKeysets: map[string]crypto.WalletKeyset{inact.Id: inact}}}}
	return &vhWalletEnv{w: w, db: db, mint: m}
}

func (e *vhWalletEnv) close() {
	if e.mint.srv != nil {
		e.mint.srv.Close()
	}
}

// holdProof gives the wallet a genuine, unspent proof of 2^exp on keyset ks with a concrete distinct secret
func (e *vhWalletEnv) holdProof(i int, ks int, amount uint64) cashu.Proof {
	secret := fmt.Sprintf("held-secret-%d", i)
	id := vhKsIds[ks]
	p := cashu.Proof{Amount: amount, Id: id, Secret: secret, C: fmt.Sprintf("02%062d", i)}
	e.db.proofs = append(e.db.proofs, p)
	return p
}

func vhRestoreDB(path string) storage.WalletDB { return vhRestoreTarget }

var vhRestoreTarget *vhDB
