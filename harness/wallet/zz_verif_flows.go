package wallet

import (
	"encoding/hex"
	"encoding/json"
	"fmt"

	"github.com/btcsuite/btcd/btcutil/hdkeychain"
	"github.com/btcsuite/btcd/chaincfg"
	"github.com/decred/dcrd/dcrec/secp256k1/v4"
	"github.com/elnosh/gonuts/cashu"
	"github.com/elnosh/gonuts/cashu/nuts/nut03"
	"github.com/elnosh/gonuts/cashu/nuts/nut04"
	"github.com/elnosh/gonuts/cashu/nuts/nut05"
	"github.com/elnosh/gonuts/cashu/nuts/nut09"
	"github.com/elnosh/gonuts/cashu/nuts/nut10"
	"github.com/elnosh/gonuts/cashu/nuts/nut13"
	"github.com/elnosh/gonuts/crypto"
	v "github.com/elnosh/gonuts/verifrt"
	"github.com/elnosh/gonuts/wallet/storage"
	"github.com/tyler-smith/go-bip39"
)

// ---- C17 bookkeeping: value held by the wallet and value consumed / issued by the mint, in unbounded integers
func (e *vhWalletEnv) walletValue() v.Z {
	s := v.ZU(0)
	for _, p := range e.db.proofs {
		s = v.ZAdd(s, v.ZU(p.Amount))
	}
	// pending proofs count as long as the mint has not consumed them (a handed-out proof that was redeemed, or the inputs of
	// a melt that was paid, stay in the pending store until the next reconciliation but carry no value any more)
	for _, p := range e.db.pending {
		s = v.ZAdd(s, v.ZIte(e.mint.isSpent(p.Secret), v.ZU(0), v.ZU(p.Amount)))
	}
	return s
}

type vhLedger struct {
	wallet0, spent0, issued0 v.Z
	surplus0                 uint64
}

func (e *vhWalletEnv) mintSpentValue() v.Z {
	s := v.ZU(0)
	for _, a := range e.mint.SpentAmounts {
		s = v.ZAdd(s, v.ZU(a))
	}
	return s
}
func (e *vhWalletEnv) mintIssuedValue() v.Z {
	s := v.ZU(0)
	for _, g := range e.mint.Sigs {
		s = v.ZAdd(s, v.ZU(g.Amount))
	}
	return s
}

func (e *vhWalletEnv) snapshot() vhLedger {
	return vhLedger{wallet0: e.walletValue(), spent0: e.mintSpentValue(), issued0: e.mintIssuedValue(), surplus0: e.mint.Surplus}
}

// C17: against an honest mint no value is lost and nothing is counted twice:
// wallet value (spendable + pending) changes exactly by what the mint issued to it minus what it consumed from it
func (e *vhWalletEnv) checkConservation(l vhLedger, what string) {
	lhs := v.ZAdd(e.walletValue(), v.ZSub(e.mintSpentValue(), l.spent0))
	rhs := v.ZAdd(l.wallet0, v.ZSub(e.mintIssuedValue(), l.issued0))
	v.Assert(v.ZEq(lhs, rhs), "C17 "+what+": spendable + pending value changes exactly by what the mint issued minus what it consumed (no value lost or invented)")
	v.Assert(e.mint.Surplus == l.surplus0, "C17 "+what+": every swap pays the mint exactly its input fee - inputs = outputs + fee, nothing is left behind at the mint")
	ok := true
	all := []string{}
	for _, p := range e.db.proofs {
		ok = v.And(ok, v.Not(e.mint.isSpent(p.Secret)))
		all = append(all, p.Secret)
	}
	for _, p := range e.db.pending {
		all = append(all, p.Secret)
	}
	v.Assert(ok, "C17 "+what+": every proof counted as spendable is unspent at the mint")
	dup := false
	for i := range all {
		for j := 0; j < i; j++ {
			dup = v.Or(dup, all[i] == all[j])
		}
	}
	v.Assert(v.Not(dup), "C17 "+what+": no secret is held twice (spendable and pending together)")
	bal := v.ZU(0)
	for _, p := range e.db.proofs {
		bal = v.ZAdd(bal, v.ZU(p.Amount))
	}
	v.Assert(v.ZEq(v.ZU(e.w.GetBalance()), bal), "C17 "+what+": the reported balance is exactly the value of the spendable proofs")
}

// C08: no request carries a blinding factor (DLEQ r of an input) or the secret of a requested output
func (e *vhWalletEnv) checkNoLeak(what string) {
	secrets := []string{}
	for _, p := range e.db.proofs {
		secrets = append(secrets, p.Secret)
	}
	for _, r := range e.mint.Reqs {
		var ins cashu.Proofs
		var outs cashu.BlindedMessages
		switch r.Path {
		case "/v1/swap":
			var q nut03.PostSwapRequest
			json.Unmarshal(r.Body, &q)
			ins, outs = q.Inputs, q.Outputs
		case "/v1/melt/bolt11":
			var q nut05.PostMeltBolt11Request
			json.Unmarshal(r.Body, &q)
			ins, outs = q.Inputs, q.Outputs
		case "/v1/mint/bolt11":
			var q nut04.PostMintBolt11Request
			json.Unmarshal(r.Body, &q)
			outs = q.Outputs
		case "/v1/restore":
			var q nut09.PostRestoreRequest
			json.Unmarshal(r.Body, &q)
			outs = q.Outputs
		}
		okIn := true
		for _, p := range ins {
			if p.DLEQ != nil {
				okIn = v.And(okIn, p.DLEQ.R == "")
			}
		}
		if len(ins) > 0 {
			v.Assert(okIn, "C08 "+what+": no input sent to the mint ("+r.Path+") carries the blinding factor r in its DLEQ proof")
		}
		okOut := true
		for _, o := range outs {
			for _, s := range secrets {
				okOut = v.And(okOut, o.B_ != s, o.Witness != s, o.Id != s)
			}
		}
		if len(outs) > 0 {
			v.Assert(okOut, "C08 "+what+": no output sent to the mint ("+r.Path+") carries the secret of a proof the wallet got from it")
		}
	}
}

// expected deterministic output (B_) of a keyset at a counter, written from NUT-13
func vhExpectedB(master *hdkeychain.ExtendedKey, keysetId string, counter uint32) string {
	path, err := nut13.DeriveKeysetPath(master, keysetId)
	v.Assume(err == nil)
	secret, serr := nut13.DeriveSecret(path, counter)
	r, rerr := nut13.DeriveBlindingFactor(path, counter)
	v.Assume(serr == nil && rerr == nil)
	B_, _, berr := crypto.BlindMessage(secret, r)
	v.Assume(berr == nil)
	return hex.EncodeToString(B_.SerializeCompressed())
}

// C19 (a): the outputs submitted in this operation use exactly the counters [c, c+n) read from the store
func (e *vhWalletEnv) checkCounters(c uint32, firstReq int, path string, what string) int {
	n := 0
	for _, r := range e.mint.Reqs[firstReq:] {
		if r.Path != path {
			continue
		}
		var outs cashu.BlindedMessages
		switch path {
		case "/v1/mint/bolt11":
			var q nut04.PostMintBolt11Request
			json.Unmarshal(r.Body, &q)
			outs = q.Outputs
		case "/v1/swap":
			var q nut03.PostSwapRequest
			json.Unmarshal(r.Body, &q)
			outs = q.Outputs
		case "/v1/melt/bolt11":
			var q nut05.PostMeltBolt11Request
			json.Unmarshal(r.Body, &q)
			outs = q.Outputs
		}
		used := false
		// the outputs are sorted by amount before they are sent, so compare as sets
		for k := range outs {
			hit := false
			for j := range outs {
				hit = v.Or(hit, outs[j].B_ == vhExpectedB(e.w.masterKey, e.mint.Active, c+uint32(n+k)))
			}
			v.Assert(hit, "C19 "+what+": the outputs submitted for signing are exactly those of the counters [c, c+n) read from the store")
			used = true
		}
		if used {
			n += len(outs)
		}
	}
	return n
}

// Mint tokens for a paid quote (C19 counters, C17 value, C08), optionally refused by the mint
func VHarnessWalletMint() {
	c := v.U32("counter")
	v.Assume(c < 1<<30)
	env := vhNewWallet(0, 0, c)
	defer env.close()
	amount := v.U64("quote.amount")
	v.Assume(amount >= 1 && amount <= 11)
	env.db.SaveMintQuote(storage.MintQuote{QuoteId: "q1", Mint: env.mint.URL, Method: "bolt11", State: nut04.Unpaid, Unit: "sat", PaymentRequest: "lnbc-q1", Amount: amount})
	env.mint.MintQ["q1"] = &vhMintQuote{Amount: amount, State: nut04.Paid}
	env.mint.Refuse = v.Int("mint.refuses", 0, 1) == 1
	l := env.snapshot()
	got, err := env.w.MintTokens("q1")
	after := env.db.GetKeysetCounter(env.mint.Active)
	n := env.checkCounters(c, 0, "/v1/mint/bolt11", "mint")
	if err == nil {
		v.Reach("minted")
		v.Assert(got == amount, "C17 mint: the wallet reports the quote amount as minted")
		v.Assert(after == c+uint32(n), "C19 mint: on success the stored counter is past every counter submitted for signing")
		env.checkConservation(l, "mint")
	} else {
		v.Reach("mint-failed")
		v.Assert(len(env.mint.Sigs) == 0, "the fake mint signed nothing when it refused")
		v.Assert(after == c, "C19 mint: a refused request does not advance the counter")
	}
	env.checkNoLeak("mint")
}

// gives the wallet deterministic proofs of the given amounts the way MintTokens does (real createBlindedMessages /
// constructProofs, signed by the fake mint, counter advanced) but with a split chosen by the harness
func (e *vhWalletEnv) mintDeterministic(amounts []uint64) {
	ks := e.w.mints[e.mint.URL].activeKeyset
	counter := e.db.GetKeysetCounter(ks.Id)
	bms, secrets, rs, err := e.w.createBlindedMessages(amounts, ks.Id, &counter)
	v.Assume(err == nil)
	sigs, ok := e.mint.sign(bms)
	v.Assume(ok)
	proofs, err := constructProofs(sigs, bms, secrets, rs, &ks)
	v.Assume(err == nil)
	e.db.SaveProofs(proofs)
	e.db.IncrementKeysetCounter(ks.Id, uint32(len(bms)))
}

// Mint, then send an amount that needs a swap: the swap inputs are proofs the wallet stored with their DLEQ data (C08)
func VHarnessWalletMintThenSend() {
	ppk := uint(v.PickU64(v.U64("ppk.active"), 0, 100, 1000))
	env := vhNewWallet(ppk, 0, 0)
	defer env.close()
	env.mintDeterministic([]uint64{8}) // one proof of 8: every smaller send needs a swap
	c := env.db.GetKeysetCounter(env.mint.Active)
	first := len(env.mint.Reqs)
	l := env.snapshot()
	amount := v.U64("send.amount")
	v.Assume(amount >= 1 && amount <= 5)
	includeFees := v.Int("includeFees", 0, 1) == 1
	sent, serr := env.w.Send(amount, env.mint.URL, includeFees)
	v.Assume(serr == nil)
	v.Reach("sent")
	n := env.checkCounters(c, first, "/v1/swap", "send")
	v.Assert(n > 0, "the send went through a swap")
	v.Assert(env.db.GetKeysetCounter(env.mint.Active) == c+uint32(n), "C19 send: the stored counter is past every counter submitted for signing")
	env.checkConservation(l, "send")
	env.checkNoLeak("send")
	_ = sent
}

var vhMeltTransportFaults = false
var vhMeltMaxAmount uint64 = 6
var vhMeltMaxReserve = 1

// the widest version: reserve up to 2, amounts up to 6
func VHarnessWalletMeltLostWide() {
	vhMeltMaxReserve = 2
	VHarnessWalletMeltLost()
}

// the same with a transport fault on the melt request (request or response lost), then a state check and a retry
func VHarnessWalletMeltLost() {
	vhMeltTransportFaults = true
	if vhMeltMaxReserve < 2 {
		vhMeltMaxAmount = 4
	}
	VHarnessWalletMelt()
}

// Melt with each outcome, then a state check after the mint settled the payment either way (C17, C08, C19)
func VHarnessWalletMelt() {
	ppkA := uint(v.PickU64(v.U64("ppk.active"), 0, 1000))
	env := vhNewWallet(ppkA, 0, 0)
	defer env.close()
	n := v.Int("nProofs", 1, 2)
	for i := 0; i < n; i++ {
		e := v.U64(fmt.Sprintf("held%d.exp", i))
		v.Assume(e <= 2)
		p := env.holdProof(i, 0, uint64(1)<<e)
		if v.Int(fmt.Sprintf("held%d.dleq", i), 0, 1) == 1 { // stored with DLEQ data incl. r, as constructProofs stores it
			env.db.proofs[i].DLEQ = &cashu.DLEQProof{E: "aa", S: "bb", R: "cc"}
		}
		_ = p
	}
	amount := v.U64("melt.amount")
	v.Assume(amount >= 1 && amount <= vhMeltMaxAmount)
	reserve := uint64(v.Int("melt.reserve", 0, vhMeltMaxReserve))
	actualFee := v.U64("melt.actualfee") // what the payment really costs: the mint returns the rest of the reserve as NUT-08 change
	v.Assume(actualFee <= reserve)
	env.db.SaveMeltQuote(storage.MeltQuote{QuoteId: "mq1", Mint: env.mint.URL, Method: "bolt11", State: nut05.Unpaid, Unit: "sat", PaymentRequest: "lnbc-mq1", Amount: amount, FeeReserve: reserve})
	outcome := v.Int("melt.outcome", 0, 2)
	lose := 0
	if vhMeltTransportFaults {
		lose = v.Int("melt.lose", 0, 2)
	}
	env.mint.MeltQ["mq1"] = &vhMeltQuote{Amount: amount, FeeReserve: reserve, State: nut05.Unpaid, Outcome: outcome, Lose: lose, ActualFee: actualFee, GiveChange: true}
	l := env.snapshot()
	resp, err := env.w.Melt("mq1")
	if err != nil {
		v.Reach("melt-error")
		if lose != 2 { // (a lost response leaves the mint's change in flight until the next state check: examined after it)
			env.checkConservation(l, "melt refused")
		}
		if lose != 0 {
			// the request or its answer was lost on the way: the wallet cannot know the outcome; the next state check reconciles
			q := env.mint.MeltQ["mq1"]
			_, cerr := env.w.CheckMeltQuoteState("mq1")
			v.Assert(cerr == nil, "C17 melt: state check after a lost melt request / response succeeds")
			env.checkConservation(l, "lost melt reconciled")
			if q.State != nut05.Pending {
				v.Assert(len(env.db.pending) == 0, "C17 melt: once the mint reports the melt whose request or answer was lost as paid or unpaid, nothing stays pending")
			}
			if q.State == nut05.Unpaid {
				// the quote is still unpaid: the wallet can pay it again, and ends up with nothing stuck in pending
				q.Outcome = 0
				_, rerr := env.w.Melt("mq1")
				if rerr == nil {
					env.checkConservation(l, "lost melt retried")
					v.Assert(len(env.db.pending) == 0, "C17 melt: after the retried melt was paid nothing stays pending")
					v.Reach("lost-melt-retried")
				}
			}
			v.Reach("lost-melt-reconciled")
		}
		return
	}
	v.Reach(fmt.Sprintf("melt-outcome-%d", outcome))
	env.checkConservation(l, "melt")
	pend := v.ZU(0)
	for _, p := range env.db.pending {
		pend = v.ZAdd(pend, v.ZU(p.Amount))
	}
	v.Assert(v.ZEq(v.ZU(env.w.PendingBalance()), pend), "C17 melt: the pending balance is exactly the value locked in the melt")
	if resp.State == nut05.Pending {
		v.Assert(len(env.db.pending) > 0, "C17 melt: inputs of a pending melt stay in the pending balance")
		// the payment settles later: paid or failed; the next state check reconciles
		final := v.Int("melt.final", 0, 1)
		q := env.mint.MeltQ["mq1"]
		if final == 0 {
			q.State = nut05.Paid
			for _, p := range env.db.pending {
				env.mint.Spent = append(env.mint.Spent, p.Secret)
				env.mint.SpentAmounts = append(env.mint.SpentAmounts, p.Amount)
			}
			env.mint.giveChange(q)
		} else {
			q.State = nut05.Unpaid
		}
		_, cerr := env.w.CheckMeltQuoteState("mq1")
		v.Assert(cerr == nil, "C17 melt: state check succeeds")
		env.checkConservation(l, "melt resolved")
		v.Assert(len(env.db.pending) == 0, "C17 melt: after the payment settled nothing stays pending")
		v.Reach("melt-resolved")
	}
	env.checkNoLeak("melt")
}

// C19 (b): restore from the mnemonic into an empty store: every signed output below the scan horizon is found and the
// counter written back is past every signed counter without leaving a gap of three empty batches before it
const vhMnemonic = "abandon abandon abandon abandon abandon abandon abandon abandon abandon abandon abandon about"

func VHarnessRestore()  { vhRestore(4, false) }
func VHarnessRestore3() { vhRestore(3, false) }

// every one of the first three batches has a signed output (the shortest history on which a cumulative counter update shows)
func VHarnessRestoreDense() { vhRestore(3, true) }

func vhRestore(nb int, dense bool) {
	vhDerivedIds = true
	env := vhNewWallet(0, 0, 0)
	defer env.close()
	seed := bip39.NewSeed(vhMnemonic, "")
	master, err := hdkeychain.NewMaster(seed, &chaincfg.MainNetParams)
	v.Assume(err == nil)
	// the mint has signed the first output of some of the first four 100-output batches of the active keyset
	last := -1
	expected := v.ZU(0)
	for b := 0; b < nb; b++ {
		if dense || v.Int(fmt.Sprintf("batch%d.signed", b), 0, 1) == 1 {
			B := vhExpectedB(master, env.mint.Active, uint32(100*b))
			_, ok := env.mint.sign(cashu.BlindedMessages{{Amount: 2, Id: env.mint.Active, B_: B}})
			v.Assume(ok)
			// a wallet uses its counters consecutively (C19 part 1), so no history leaves three whole batches without a
			// signed output below a signed one: such patterns are beyond NUT-13's gap limit by specification
			v.Assume(b-last <= 3)
			last = b
			expected = v.ZAdd(expected, v.ZU(2))
		}
	}
	// ... and, before it rotated, possibly the first output of the keyset that is inactive now
	inactiveSigned := v.Int("inactive.signed", 0, 1) == 1
	if inactiveSigned {
		act := env.mint.Active
		env.mint.Active = vhKsIds[1]
		_, ok := env.mint.sign(cashu.BlindedMessages{{Amount: 4, Id: vhKsIds[1], B_: vhExpectedB(master, vhKsIds[1], 0)}})
		env.mint.Active = act
		v.Assume(ok)
		expected = v.ZAdd(expected, v.ZU(4))
	}
	var path string
	if v.Native() {
		path = v.TempDir()
	} else {
		path = "/model/restore"
		vhRestoreTarget = &vhDB{}
	}
	first := len(env.mint.Reqs)
	got, rerr := Restore(path, vhMnemonic, []string{env.mint.URL})
	v.Assert(rerr == nil, "C19 restore succeeds against an honest mint")
	if rerr != nil {
		return
	}
	db, derr := InitStorage(path)
	v.Assume(derr == nil)
	v.Assert(v.ZEq(v.ZU(got), expected), "C19 restore recovers every unspent deterministic proof below the gap limit")
	bal := v.ZU(0)
	for _, p := range db.GetProofs() {
		bal = v.ZAdd(bal, v.ZU(p.Amount))
	}
	v.Assert(v.ZEq(bal, expected), "C19 the restored wallet holds exactly the recovered value (nothing counted twice)")
	ctr := db.GetKeysetCounter(env.mint.Active)
	if last >= 0 {
		v.Assert(ctr > uint32(100*last), "C19 the counter written back by restore is past every signed counter")
		v.Assert(ctr/100 <= uint32(last+3), "C19 the counter written back by restore leaves no run of three empty batches before it (a second restore of the continued wallet finds its new outputs)")
	}
	ictr := db.GetKeysetCounter(vhKsIds[1])
	if inactiveSigned {
		v.Assert(v.And(ictr > 0, ictr/100 <= 3), "C19 restore writes back a counter past the signed outputs of every keyset it scanned (the inactive one too), without a gap of three batches")
	}
	db.Close()
	v.Reach("restored")
	_ = first
}

// C17: reconciliation of the pending store: 1..2 pending proofs, each either handed out in a token or locked in a melt,
// each UNSPENT / SPENT / PENDING at the mint; ReclaimUnspentProofs or RemoveSpentProofs.
func VHarnessWalletReclaim() {
	ppkA := uint(v.PickU64(v.U64("ppk.active"), 0, 1000))
	env := vhNewWallet(ppkA, 0, 0)
	defer env.close()
	n := v.Int("nPending", 1, 2)
	states := make([]int, n)
	secrets := make([]string, n)
	inMelt := make([]bool, n)
	for i := 0; i < n; i++ {
		e := v.U64(fmt.Sprintf("pend%d.exp", i))
		v.Assume(e <= 2)
		secrets[i] = fmt.Sprintf("pending-secret-%d", i)
		p := cashu.Proof{Amount: uint64(1) << e, Id: vhKsIds[0], Secret: secrets[i], C: fmt.Sprintf("03%062d", i)}
		inMelt[i] = v.Int(fmt.Sprintf("pend%d.inmelt", i), 0, 1) == 1
		if inMelt[i] {
			env.db.AddPendingProofsByQuoteId(cashu.Proofs{p}, "mq1")
		} else {
			env.db.AddPendingProofs(cashu.Proofs{p})
		}
		// at the mint: 0 UNSPENT (token never redeemed / payment failed), 1 SPENT (redeemed / paid), 2 PENDING (payment in flight)
		states[i] = v.Int(fmt.Sprintf("pend%d.mintstate", i), 0, 2)
		switch states[i] {
		case 1:
			env.mint.Spent = append(env.mint.Spent, p.Secret)
			env.mint.SpentAmounts = append(env.mint.SpentAmounts, p.Amount)
		case 2:
			v.Assume(inMelt[i])
			env.mint.Locked = append(env.mint.Locked, p.Secret)
		}
	}
	l := env.snapshot()
	op := v.Int("op", 0, 1)
	var err error
	if op == 0 {
		_, err = env.w.ReclaimUnspentProofs()
	} else {
		err = env.w.RemoveSpentProofs()
	}
	env.checkConservation(l, "reconcile")
	if err != nil {
		v.Reach("reconcile-error")
		return
	}
	for i := 0; i < n; i++ {
		present := false
		for _, p := range env.db.pending {
			present = v.Or(present, p.Secret == secrets[i])
		}
		if op == 0 {
			v.Assert(present == (states[i] != 0), "C17 reclaim: exactly the pending proofs the mint reports UNSPENT leave the pending store (value locked in an in-flight melt stays pending)")
		} else {
			v.Assert(present == (states[i] != 1), "C17 remove-spent: exactly the pending proofs the mint reports SPENT leave the pending store")
		}
	}
	pend := v.ZU(0)
	for _, p := range env.db.pending {
		pend = v.ZAdd(pend, v.ZU(p.Amount))
	}
	v.Assert(v.ZEq(v.ZU(env.w.PendingBalance()), pend), "C17 reconcile: the pending balance is exactly the value still pending")
	v.Reach(fmt.Sprintf("reconciled-%d", op))
	env.checkNoLeak("reconcile")
}

// C17/C19/C08: receive a token of the wallet's own mint: its proofs are swapped for new deterministic ones
func VHarnessWalletReceive() {
	ppkA := uint(v.PickU64(v.U64("ppk.active"), 0, 100, 1000))
	c := v.U32("counter")
	v.Assume(c < 1<<30)
	env := vhNewWallet(ppkA, 0, c)
	defer env.close()
	n := v.Int("nToken", 1, 2)
	var ps cashu.Proofs
	total := v.ZU(0)
	for i := 0; i < n; i++ {
		e := v.U64(fmt.Sprintf("tok%d.exp", i))
		v.Assume(e <= 3)
		p := cashu.Proof{Amount: uint64(1) << e, Id: vhKsIds[0], Secret: fmt.Sprintf("token-secret-%d", i), C: fmt.Sprintf("02%062d", 50+i)}
		ps = append(ps, p)
		total = v.ZAdd(total, v.ZU(p.Amount))
	}
	tok, terr := cashu.NewTokenV4(ps, env.mint.URL, cashu.Sat, false)
	v.Assume(terr == nil)
	fee := env.mint.fee(ps)
	env.mint.Refuse = v.Int("mint.refuses", 0, 1) == 1
	l := env.snapshot()
	l.wallet0 = v.ZAdd(l.wallet0, total) // the value in the token the caller hands in
	first := len(env.mint.Reqs)
	bal0 := env.w.GetBalance()
	got, err := env.w.Receive(tok, false)
	after := env.db.GetKeysetCounter(env.mint.Active)
	if err == nil {
		v.Reach("received")
		v.Assert(v.ZEq(v.ZAdd(v.ZU(got), v.ZU(fee)), total), "C17 receive: the wallet reports exactly the token value minus the mint's input fee")
		v.Assert(v.ZEq(v.ZU(env.w.GetBalance()), v.ZAdd(v.ZU(bal0), v.ZU(got))), "C17 receive: the balance grows by exactly the amount reported")
		k := env.checkCounters(c, first, "/v1/swap", "receive")
		v.Assert(after == c+uint32(k), "C19 receive: the stored counter is past every counter submitted for signing")
	} else {
		v.Reach("receive-failed")
		v.Assert(v.And(after == c, env.w.GetBalance() == bal0), "C17/C19 receive: a failed receive changes neither balance nor counter")
		l.wallet0 = v.ZSub(l.wallet0, total) // the token is still the caller's
	}
	env.checkConservation(l, "receive")
	env.checkNoLeak("receive")
}

// C19 crash points: holding one deterministic proof of 8, a send (through a swap) / a melt / a receive of a foreign token /
// a mint is killed before any one of its storage or HTTP calls (position symbolic; or runs to its end); restoring from
// the mnemonic into an empty directory recovers exactly the value of this seed's outputs that the mint still holds unspent.
func vhCrashRestore(op int) {
	vhDerivedIds = true
	vhSeed = bip39.NewSeed(vhMnemonic, "")
	env := vhNewWallet(100, 0, 0)
	defer env.close()
	env.mintDeterministic([]uint64{8}) // one proof of 8: send and melt need a swap / change
	foreign := []string{}
	var run func()
	switch op {
	case 0:
		amount := v.U64("send.amount")
		v.Assume(amount >= 1 && amount <= 2)
		run = func() { env.w.Send(amount, env.mint.URL, true) }
	case 1:
		amount := uint64(v.Int("melt.amount", 1, 3))
		env.db.SaveMeltQuote(storage.MeltQuote{QuoteId: "mq1", Mint: env.mint.URL, Method: "bolt11", State: nut05.Unpaid, Unit: "sat", PaymentRequest: "lnbc-mq1", Amount: amount, FeeReserve: 1})
		env.mint.MeltQ["mq1"] = &vhMeltQuote{Amount: amount, FeeReserve: 1, State: nut05.Unpaid, Outcome: 2 * v.Int("melt.failed", 0, 1)}
		run = func() { env.w.Melt("mq1") }
	case 2:
		p := cashu.Proof{Amount: 4, Id: vhKsIds[0], Secret: "token-secret-0", C: fmt.Sprintf("02%062d", 50)}
		foreign = append(foreign, p.Secret)
		tok, terr := cashu.NewTokenV4(cashu.Proofs{p}, env.mint.URL, cashu.Sat, false)
		v.Assume(terr == nil)
		run = func() { env.w.Receive(tok, false) }
	default:
		env.db.SaveMintQuote(storage.MintQuote{QuoteId: "q1", Mint: env.mint.URL, Method: "bolt11", State: nut04.Unpaid, Unit: "sat", PaymentRequest: "lnbc-q1", Amount: 3})
		env.mint.MintQ["q1"] = &vhMintQuote{Amount: 3, State: nut04.Paid}
		run = func() { env.w.MintTokens("q1") }
	}
	hit := v.CrashRun(run)
	if hit {
		v.Reach("struck")
	} else {
		v.Reach("not-struck")
	}
	var path string
	if v.Native() {
		path = v.TempDir()
	} else {
		path = "/model/restore"
		vhRestoreTarget = &vhDB{}
	}
	got, rerr := Restore(path, vhMnemonic, []string{env.mint.URL})
	v.Assert(rerr == nil, "C19 restore succeeds against an honest mint")
	if rerr != nil {
		return
	}
	// value of this seed's outputs still unspent at the mint: everything it signed minus the inputs it consumed,
	// not counting inputs that came from a foreign token
	unspent := env.mintIssuedValue()
	for i, sct := range env.mint.Spent {
		own := true
		for _, f := range foreign {
			if sct == f {
				own = false
			}
		}
		if own {
			unspent = v.ZSub(unspent, v.ZU(env.mint.SpentAmounts[i]))
		}
	}
	v.Assert(v.ZEq(v.ZU(got), unspent), "C19 restore after a wallet crash at any point of the operation recovers exactly the value of this seed's outputs that is unspent at the mint")
	v.Reach("restored-after-crash")
}

func VHarnessWalletCrashRestore()        { vhCrashRestore(0) }
func VHarnessWalletCrashRestoreMelt()    { vhCrashRestore(1) }
func VHarnessWalletCrashRestoreReceive() { vhCrashRestore(2) }
func VHarnessWalletCrashRestoreMint()    { vhCrashRestore(3) }

// C19 "also when the wallet being backed up was itself created by a restore": restore, then open the restored store the way
// LoadWallet does (loadWalletMints + getActiveKeyset against a mint whose fee is 0 or not) and look at the counter it keeps.
func VHarnessRestoreContinue() {
	vhDerivedIds = true
	ppk := uint(v.PickU64(v.U64("ppk"), 0, 100, 1000))
	env := vhNewWallet(ppk, ppk, 0)
	defer env.close()
	seed := bip39.NewSeed(vhMnemonic, "")
	master, err := hdkeychain.NewMaster(seed, &chaincfg.MainNetParams)
	v.Assume(err == nil)
	B := vhExpectedB(master, env.mint.Active, 0)
	_, ok := env.mint.sign(cashu.BlindedMessages{{Amount: 2, Id: env.mint.Active, B_: B}})
	v.Assume(ok)
	var path string
	if v.Native() {
		path = v.TempDir()
	} else {
		path = "/model/restore"
		vhRestoreTarget = &vhDB{}
	}
	got, rerr := Restore(path, vhMnemonic, []string{env.mint.URL})
	v.Assert(rerr == nil, "C19 restore succeeds against an honest mint")
	if rerr != nil {
		return
	}
	v.Assert(got == 2, "C19 restore recovers the signed output")
	db, derr := InitStorage(path)
	v.Assume(derr == nil)
	defer db.Close()
	c0 := db.GetKeysetCounter(env.mint.Active)
	v.Assert(c0 > 0, "C19 the counter written back by restore is past every signed counter")
	// the restored wallet is opened and used (the tail of LoadWallet)
	priv, perr := DeriveP2PK(master)
	v.Assume(perr == nil)
	w := &Wallet{db: db, unit: cashu.Sat, masterKey: master, privateKey: priv, defaultMint: env.mint.URL}
	mints, lerr := w.loadWalletMints()
	v.Assert(lerr == nil, "C19 the restored store can be opened")
	if lerr != nil {
		return
	}
	w.mints = mints
	ks, kerr := w.getActiveKeyset(env.mint.URL)
	v.Assert(kerr == nil, "C19 the restored wallet finds its mint's active keyset")
	if kerr != nil {
		return
	}
	v.Assert(ks.Id == env.mint.Active, "C19 the restored wallet uses the mint's active keyset")
	v.Assert(db.GetKeysetCounter(env.mint.Active) >= c0, "C19 opening a wallet created by a restore keeps its counter past every signed counter")
	v.Assert(ks.Counter >= c0, "C19 the keyset the restored wallet derives its next outputs from carries the restored counter")
	v.Assert(uint(ks.InputFeePpk) == ppk, "C18 the restored wallet knows its mint's input fee")
	v.Reach("continued")
}

// a proof the mint really signed for somebody else's blinded message, handed over with its DLEQ proof including the
// blinding factor r (what a sender puts into a token when asked to include DLEQ data)
func (e *vhWalletEnv) foreignProof(tag string, amount uint64, secret string) cashu.Proof {
	r := v.Priv(tag + ".r")
	B_, _, err := crypto.BlindMessage(secret, r)
	v.Assume(err == nil)
	bm := cashu.BlindedMessage{Amount: amount, Id: e.mint.Active, B_: hex.EncodeToString(B_.SerializeCompressed())}
	sigs, ok := e.mint.sign(cashu.BlindedMessages{bm})
	v.Assume(ok)
	ks := e.w.mints[e.mint.URL].activeKeyset
	proofs, err := constructProofs(sigs, cashu.BlindedMessages{bm}, []string{secret}, []*secp256k1.PrivateKey{r}, &ks)
	v.Assume(err == nil)
	return proofs[0]
}

// C08 / C17: receiving a token whose proofs carry DLEQ data (e, s, r) - plain or P2PK-locked to this wallet's key, in which
// case the wallet attaches a witness before swapping. Nothing the wallet sends may contain r.
func VHarnessWalletReceiveDLEQ() {
	ppkA := uint(v.PickU64(v.U64("ppk.active"), 0, 1000))
	env := vhNewWallet(ppkA, 0, 0)
	defer env.close()
	n := v.Int("nToken", 1, 2)
	locked := v.Int("locked", 0, 1) == 1
	var ps cashu.Proofs
	total := v.ZU(0)
	issued0 := len(env.mint.Sigs)
	for i := 0; i < n; i++ {
		e := v.U64(fmt.Sprintf("tok%d.exp", i))
		v.Assume(e <= 2)
		secret := fmt.Sprintf("token-secret-%d", i)
		if locked {
			s, serr := nut10.SerializeSecret(nut10.WellKnownSecret{Kind: nut10.P2PK, Data: nut10.SecretData{Nonce: fmt.Sprintf("nonce%d", i),
				Data: hex.EncodeToString(env.w.privateKey.PubKey().SerializeCompressed())}})
			v.Assume(serr == nil)
			secret = s
		}
		p := env.foreignProof(fmt.Sprintf("tok%d", i), uint64(1)<<e, secret)
		if v.Int(fmt.Sprintf("tok%d.dleq", i), 0, 1) == 0 {
			p.DLEQ = nil
		}
		ps = append(ps, p)
		total = v.ZAdd(total, v.ZU(p.Amount))
	}
	_ = issued0
	tok, terr := cashu.NewTokenV4(ps, env.mint.URL, cashu.Sat, true)
	v.Assume(terr == nil)
	fee := env.mint.fee(ps)
	l := env.snapshot()
	l.wallet0 = v.ZAdd(l.wallet0, total)
	got, err := env.w.Receive(tok, false)
	if locked {
		// stated: a NUT-10 secret (JSON text starting with '[') is never equal to a NUT-13 secret (64 hex digits); the
		// summary of the NUT-10 serialiser hands out opaque strings, so the engine has to be told
		for _, q := range env.db.proofs {
			for _, p := range ps {
				v.Assume(q.Secret != p.Secret)
			}
		}
	}
	if err == nil {
		v.Reach("received")
		if locked {
			v.Reach("received-locked")
		}
		v.Assert(v.ZEq(v.ZAdd(v.ZU(got), v.ZU(fee)), total), "C17 receive: the wallet reports exactly the token value minus the mint's input fee")
	} else {
		v.Reach("receive-failed")
		l.wallet0 = v.ZSub(l.wallet0, total)
	}
	// the only way to fail against this mint: the token is worth no more than its fee
	v.Assert(v.Or(err == nil, v.ZLe(total, v.ZU(fee))), "C17 receive: a genuine token with valid DLEQ data worth more than its fee is accepted")
	env.checkConservation(l, "receive (token with DLEQ)")
	env.checkNoLeak("receive (token with DLEQ)")
}
