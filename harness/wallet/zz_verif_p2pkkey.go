package wallet

import (
	"github.com/btcsuite/btcd/btcutil/hdkeychain"
	"github.com/btcsuite/btcd/chaincfg"
	v "github.com/elnosh/gonuts/verifrt"
)

// C11: the wallet's P2PK receive key is m/129372'/0'/1'/0
func VHarnessDeriveP2PK() {
	seed := []byte(v.Str("seed"))
	v.Assume(len(seed) == 32)
	master, err := hdkeychain.NewMaster(seed, &chaincfg.MainNetParams)
	v.Assume(err == nil)
	H := uint32(0x80000000)
	a, _ := master.Derive(H + 129372)
	b, _ := a.Derive(H + 0)
	c, _ := b.Derive(H + 1)
	d, _ := c.Derive(0)
	want, _ := d.ECPrivKey()
	got, gerr := DeriveP2PK(master)
	v.Assert(gerr == nil, "C11 DeriveP2PK succeeds")
	if gerr == nil {
		v.Assert(v.SamePriv(got, want), "C11 P2PK receive key = private key at m/129372'/0'/1'/0")
	}
	v.Reach("done")
}
