package wallet

import (
	"fmt"

	"github.com/elnosh/gonuts/cashu"
	"github.com/elnosh/gonuts/crypto"
	v "github.com/elnosh/gonuts/verifrt"
)

// wallet content: 1..maxProofs proofs of 2^0..2^maxExp on the active / the inactive keyset, fees from the property's set
var vhFeeSet = []uint64{0, 100, 250, 500, 1000, 2000}
var vhMinProofs = 1
var vhForceKs []int
var vhReload = false

func vhHoldings(maxProofs int, maxExp uint64) (*vhWalletEnv, v.Z, cashu.Proofs) {
	ppkA := uint(v.PickU64(v.U64("ppk.active"), vhFeeSet...))
	ppkI := uint(v.PickU64(v.U64("ppk.inactive"), vhFeeSet...))
	env := vhNewWallet(ppkA, ppkI, 0)
	if vhReload {
		// the wallet was restarted: its view of the mint's keysets is rebuilt from the store, as LoadWallet does
		mints, err := env.w.loadWalletMints()
		v.Assume(err == nil)
		env.w.mints = mints
	}
	n := v.Int("nProofs", vhMinProofs, maxProofs)
	total := v.ZU(0)
	var held cashu.Proofs
	for i := 0; i < n; i++ {
		e := v.U64(fmt.Sprintf("held%d.exp", i))
		v.Assume(e <= maxExp)
		ks := 0
		if vhForceKs != nil {
			ks = vhForceKs[i]
		} else {
			ks = v.Int(fmt.Sprintf("held%d.inactive", i), 0, 1)
		}
		p := env.holdProof(i, ks, uint64(1)<<e)
		held = append(held, p)
		total = v.ZAdd(total, v.ZU(p.Amount))
	}
	return env, total, held
}

// C18: Send hands over exactly the requested amount (+ the input fee of the very proofs handed over when fees are included)
func vhSendStep(maxProofs int, maxExp uint64) {
	env, total, held := vhHoldings(maxProofs, maxExp)
	defer env.close()
	amount := v.U64("amount")
	v.Assume(amount >= 1)
	v.Assume(v.ZLe(v.ZU(amount), total))
	includeFees := v.Int("includeFees", 0, 1) == 1
	feeAll := v.ZU(env.mint.fee(held))
	l := env.snapshot()
	sent, err := env.w.Send(amount, env.mint.URL, includeFees)
	env.checkConservation(l, "send")
	if err == nil {
		v.Reach("sent")
		sum := v.ZU(0)
		for _, p := range sent {
			sum = v.ZAdd(sum, v.ZU(p.Amount))
		}
		want := v.ZU(amount)
		if includeFees {
			want = v.ZAdd(want, v.ZU(env.mint.fee(sent)))
		}
		v.Assert(v.ZEq(sum, want), "C18 a successful send hands over exactly the requested amount, plus exactly the input fee of the proofs handed over when fees are included")
		ok := true
		for i := range sent {
			for j := 0; j < i; j++ {
				ok = v.And(ok, sent[i].Secret != sent[j].Secret)
			}
			ok = v.And(ok, v.Not(env.mint.isSpent(sent[i].Secret)))
			for _, q := range env.db.proofs {
				ok = v.And(ok, q.Secret != sent[i].Secret)
			}
		}
		v.Assert(ok, "C18 the proofs handed over are pairwise distinct, unspent at the mint and removed from the spendable balance")
		v.Assert(len(env.db.pending) == len(sent), "C17 proofs handed out are recorded as pending")
	} else {
		v.Reach("send-failed")
		// liveness: amount <= balance - fee(all held) - fee(any set of proofs that could be sent) => success
		upper := v.ZAdd(v.ZAdd(v.ZU(amount), v.ZMul(feeAll, v.ZU(2))), v.ZU(uint64(feesForCount(2*vhMaxOrder, &crypto.WalletKeyset{InputFeePpk: env.mint.Ppk[env.mint.Active]}))))
		v.Assert(v.Not(v.ZLe(upper, total)), "C18 a send of no more than the balance minus the fees of spending every proof held (and of the proofs sent) succeeds")
	}
}

func VHarnessSend() { vhSendStep(2, 3) }

// the same step over the fee set of C17's quantifier (active and inactive keyset independently)
func VHarnessSendC17Fees() {
	vhFeeSet = []uint64{0, 100, 1000}
	vhSendStep(2, 3)
}

// ... and with 100 ppk on both keysets (the rate at which per-keyset and joint rounding differ)
func VHarnessSendC17() {
	vhFeeSet = []uint64{100}
	vhSendStep(2, 2)
}
func VHarnessSendWide() { vhSendStep(3, 4) }

// the same after a wallet restart (keysets reloaded from the store by the real loadWalletMints)
func VHarnessSendReloaded() {
	vhFeeSet = []uint64{0, 100, 1000}
	vhReload = true
	vhSendStep(2, 2)
}

// exactly three proofs spread over both keysets (the smallest holding in which the inactive proofs are taken whole and
// only a part of the active ones is selected on top of them)
func VHarnessSendMixed3() {
	vhFeeSet = []uint64{0, 1000}
	vhMinProofs = 3
	vhForceKs = []int{1, 0, 0}
	vhSendStep(3, 2)
}

// C18 kernel: offline selection covers amount + fees and only fails when it must
func vhSelectKernel(maxProofs int, maxExp uint64) {
	env, total, held := vhHoldings(maxProofs, maxExp)
	defer env.close()
	for _, p := range held {
		v.Assume(p.Id == vhKsIds[0]) // one keyset: the kernel under test is selectProofsToSend
	}
	mint := env.w.mints[env.mint.URL]
	amount := v.U64("amount")
	v.Assume(amount >= 1)
	v.Assume(v.ZLe(v.ZU(amount), total))
	feeAll := v.ZU(env.mint.fee(held))
	sel, err := selectProofsToSend(append(cashu.Proofs{}, held...), amount, &mint, true)
	if err == nil {
		sum := v.ZU(0)
		for _, p := range sel {
			sum = v.ZAdd(sum, v.ZU(p.Amount))
		}
		v.Assert(v.ZLe(v.ZAdd(v.ZU(amount), v.ZU(env.mint.fee(sel))), sum), "C18 offline selection covers the amount plus the fee of the selected proofs")
		ok := len(sel) <= len(held)
		for i := range sel {
			for j := 0; j < i; j++ {
				ok = v.And(ok, sel[i].Secret != sel[j].Secret)
			}
		}
		v.Assert(ok, "C18 offline selection never selects a proof twice")
		v.Reach("selected")
	} else {
		v.Assert(v.ZLt(total, v.ZAdd(v.ZU(amount), feeAll)), "C18 offline selection fails only if amount > balance - fees of all held proofs")
		v.Reach("selection-failed")
	}
}

func VHarnessSelect()     { vhSelectKernel(3, 4) }
func VHarnessSelectWide() { vhSelectKernel(4, 5) }
