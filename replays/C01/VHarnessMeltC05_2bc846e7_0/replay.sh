#!/bin/sh
# replays this counterexample against the real build
cd /tmp/seedrepo_C01b && VERIF_SCRIPT=/verif/replays/C01/VHarnessMeltC05_2bc846e7_0/script.json VERIF_RAW_SALT=0 GOFLAGS=-mod=mod GOPROXY=off go test -vet=off -count=1 -overlay /verif/replays/C01/VHarnessMeltC05_2bc846e7_0/overlay.json -run ^TestVerifReplay_VHarnessMeltC05$ -v ./mint
