package mint

import (
	"testing"

	verifrt "github.com/elnosh/gonuts/verifrt"
)

func TestVerifReplay_VHarnessRaceMeltMelt(t *testing.T) {
	if verifrt.Run("VHarnessRaceMeltMelt", VHarnessRaceMeltMelt) {
		t.Fail()
	}
}
