#!/bin/sh
# replays this counterexample against the real build
cd /repo && VERIF_SCRIPT=/verif/replays/C01/VHarnessRaceSwapMelt_0e548d3e_1/script.json GOFLAGS=-mod=mod GOPROXY=off go test -vet=off -count=1 -overlay /verif/replays/C01/VHarnessRaceSwapMelt_0e548d3e_1/overlay.json -run ^TestVerifReplay_VHarnessRaceSwapMelt$ -v ./mint
