package mint

import (
	"testing"

	verifrt "github.com/elnosh/gonuts/verifrt"
)

func TestVerifReplay_VHarnessRaceSwapMelt(t *testing.T) {
	if verifrt.Run("VHarnessRaceSwapMelt", VHarnessRaceSwapMelt) {
		t.Fail()
	}
}
