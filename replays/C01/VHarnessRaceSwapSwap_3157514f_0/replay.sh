#!/bin/sh
# replays this counterexample against the real build
cd /tmp/seedrepo_C02f && VERIF_SCRIPT=/verif/replays/C01/VHarnessRaceSwapSwap_3157514f_0/script.json VERIF_RAW_SALT=0 GOFLAGS=-mod=mod GOPROXY=off go test -vet=off -count=1 -overlay /verif/replays/C01/VHarnessRaceSwapSwap_3157514f_0/overlay.json -run ^TestVerifReplay_VHarnessRaceSwapSwap$ -v ./mint
