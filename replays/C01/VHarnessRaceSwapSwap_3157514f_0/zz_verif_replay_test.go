package mint

import (
	"testing"

	verifrt "github.com/elnosh/gonuts/verifrt"
)

func TestVerifReplay_VHarnessRaceSwapSwap(t *testing.T) {
	if verifrt.Run("VHarnessRaceSwapSwap", VHarnessRaceSwapSwap) {
		t.Fail()
	}
}
