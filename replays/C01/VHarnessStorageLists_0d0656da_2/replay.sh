#!/bin/sh
# replays this counterexample against the real build
cd /tmp/seedonly_C01d_16283 && VERIF_SCRIPT=/verif/replays/C01/VHarnessStorageLists_0d0656da_2/script.json VERIF_RAW_SALT=2 GOFLAGS=-mod=mod GOPROXY=off go test -vet=off -count=1 -overlay /verif/replays/C01/VHarnessStorageLists_0d0656da_2/overlay.json -run ^TestVerifReplay_VHarnessStorageLists$ -v ./mint/storage/sqlite
