#!/bin/sh
# replays this counterexample against the real build
cd /tmp/seedrepo_C02f && VERIF_SCRIPT=/verif/replays/C01/VHarnessSwapC01_280e099c_0/script.json VERIF_RAW_SALT=0 GOFLAGS=-mod=mod GOPROXY=off go test -vet=off -count=1 -overlay /verif/replays/C01/VHarnessSwapC01_280e099c_0/overlay.json -run ^TestVerifReplay_VHarnessSwapC01$ -v ./mint
