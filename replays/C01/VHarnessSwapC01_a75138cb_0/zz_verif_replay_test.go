package mint

import (
	"testing"

	verifrt "github.com/elnosh/gonuts/verifrt"
)

func TestVerifReplay_VHarnessSwapC01(t *testing.T) {
	if verifrt.Run("VHarnessSwapC01", VHarnessSwapC01) {
		t.Fail()
	}
}
