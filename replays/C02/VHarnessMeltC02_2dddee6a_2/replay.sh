#!/bin/sh
# replays this counterexample against the real build
cd /repo && VERIF_SCRIPT=/verif/replays/C02/VHarnessMeltC02_2dddee6a_2/script.json GOFLAGS=-mod=mod GOPROXY=off go test -vet=off -count=1 -overlay /verif/replays/C02/VHarnessMeltC02_2dddee6a_2/overlay.json -run ^TestVerifReplay_VHarnessMeltC02$ -v ./mint
