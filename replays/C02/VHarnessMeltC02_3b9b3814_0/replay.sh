#!/bin/sh
# replays this counterexample against the real build
cd /tmp/seedrepo_C02 && VERIF_SCRIPT=/verif/replays/C02/VHarnessMeltC02_3b9b3814_0/script.json VERIF_RAW_SALT=0 GOFLAGS=-mod=mod GOPROXY=off go test -vet=off -count=1 -overlay /verif/replays/C02/VHarnessMeltC02_3b9b3814_0/overlay.json -run ^TestVerifReplay_VHarnessMeltC02$ -v ./mint
