package mint

import (
	"testing"

	verifrt "github.com/elnosh/gonuts/verifrt"
)

func TestVerifReplay_VHarnessMeltC02(t *testing.T) {
	if verifrt.Run("VHarnessMeltC02", VHarnessMeltC02) {
		t.Fail()
	}
}
