#!/bin/sh
# replays this counterexample against the real build
cd /repo && VERIF_SCRIPT=/verif/replays/C02/VHarnessMeltQuoteC02_26faa7b0_1/script.json GOFLAGS=-mod=mod GOPROXY=off go test -vet=off -count=1 -overlay /verif/replays/C02/VHarnessMeltQuoteC02_26faa7b0_1/overlay.json -run ^TestVerifReplay_VHarnessMeltQuoteC02$ -v ./mint
