#!/bin/sh
# replays this counterexample against the real build
cd /tmp/seedrepo_C02b && VERIF_SCRIPT=/verif/replays/C02/VHarnessMeltQuoteC02_b2b6399a_0/script.json VERIF_RAW_SALT=0 GOFLAGS=-mod=mod GOPROXY=off go test -vet=off -count=1 -overlay /verif/replays/C02/VHarnessMeltQuoteC02_b2b6399a_0/overlay.json -run ^TestVerifReplay_VHarnessMeltQuoteC02$ -v ./mint
