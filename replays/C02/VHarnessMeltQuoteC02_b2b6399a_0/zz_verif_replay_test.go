package mint

import (
	"testing"

	verifrt "github.com/elnosh/gonuts/verifrt"
)

func TestVerifReplay_VHarnessMeltQuoteC02(t *testing.T) {
	if verifrt.Run("VHarnessMeltQuoteC02", VHarnessMeltQuoteC02) {
		t.Fail()
	}
}
