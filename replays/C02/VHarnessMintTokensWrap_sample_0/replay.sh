#!/bin/sh
# replays this counterexample against the real build
cd /tmp/seedrepo_C09d && VERIF_SCRIPT=/verif/replays/C02/VHarnessMintTokensWrap_sample_0/script.json VERIF_RAW_SALT=0 GOFLAGS=-mod=mod GOPROXY=off go test -vet=off -count=1 -overlay /verif/replays/C02/VHarnessMintTokensWrap_sample_0/overlay.json -run ^TestVerifReplay_VHarnessMintTokensWrap$ -v ./mint
