package mint

import (
	"testing"

	verifrt "github.com/elnosh/gonuts/verifrt"
)

func TestVerifReplay_VHarnessMintTokensWrap(t *testing.T) {
	if verifrt.Run("VHarnessMintTokensWrap", VHarnessMintTokensWrap) {
		t.Fail()
	}
}
