#!/bin/sh
# replays this counterexample against the real build
cd /tmp/seedrepo_C02f && VERIF_SCRIPT=/verif/replays/C02/VHarnessSwapC02_d9d37a56_0/script.json VERIF_RAW_SALT=0 GOFLAGS=-mod=mod GOPROXY=off go test -vet=off -count=1 -overlay /verif/replays/C02/VHarnessSwapC02_d9d37a56_0/overlay.json -run ^TestVerifReplay_VHarnessSwapC02$ -v ./mint
