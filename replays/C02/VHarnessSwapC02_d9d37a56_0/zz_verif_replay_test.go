package mint

import (
	"testing"

	verifrt "github.com/elnosh/gonuts/verifrt"
)

func TestVerifReplay_VHarnessSwapC02(t *testing.T) {
	if verifrt.Run("VHarnessSwapC02", VHarnessSwapC02) {
		t.Fail()
	}
}
