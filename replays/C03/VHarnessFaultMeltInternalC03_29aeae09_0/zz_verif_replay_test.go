package mint

import (
	"testing"

	verifrt "github.com/elnosh/gonuts/verifrt"
)

func TestVerifReplay_VHarnessFaultMeltInternalC03(t *testing.T) {
	if verifrt.Run("VHarnessFaultMeltInternalC03", VHarnessFaultMeltInternalC03) {
		t.Fail()
	}
}
