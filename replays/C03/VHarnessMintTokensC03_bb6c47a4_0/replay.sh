#!/bin/sh
# replays this counterexample against the real build
cd /tmp/seedrepo_C03c && VERIF_SCRIPT=/verif/replays/C03/VHarnessMintTokensC03_bb6c47a4_0/script.json VERIF_RAW_SALT=0 GOFLAGS=-mod=mod GOPROXY=off go test -vet=off -count=1 -overlay /verif/replays/C03/VHarnessMintTokensC03_bb6c47a4_0/overlay.json -run ^TestVerifReplay_VHarnessMintTokensC03$ -v ./mint
