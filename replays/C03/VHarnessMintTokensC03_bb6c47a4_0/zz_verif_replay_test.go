package mint

import (
	"testing"

	verifrt "github.com/elnosh/gonuts/verifrt"
)

func TestVerifReplay_VHarnessMintTokensC03(t *testing.T) {
	if verifrt.Run("VHarnessMintTokensC03", VHarnessMintTokensC03) {
		t.Fail()
	}
}
