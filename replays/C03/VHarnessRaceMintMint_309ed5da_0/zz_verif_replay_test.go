package mint

import (
	"testing"

	verifrt "github.com/elnosh/gonuts/verifrt"
)

func TestVerifReplay_VHarnessRaceMintMint(t *testing.T) {
	if verifrt.Run("VHarnessRaceMintMint", VHarnessRaceMintMint) {
		t.Fail()
	}
}
