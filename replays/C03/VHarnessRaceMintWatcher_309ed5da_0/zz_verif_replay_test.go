package mint

import (
	"testing"

	verifrt "github.com/elnosh/gonuts/verifrt"
)

func TestVerifReplay_VHarnessRaceMintWatcher(t *testing.T) {
	if verifrt.Run("VHarnessRaceMintWatcher", VHarnessRaceMintWatcher) {
		t.Fail()
	}
}
