#!/bin/sh
# replays this counterexample against the real build
cd /tmp/dbg_C04 && VERIF_SCRIPT=/verif/replays/C04/VHarnessVerifyProofs_22d36a52_0/script.json VERIF_RAW_SALT=2 GOFLAGS=-mod=mod GOPROXY=off go test -vet=off -count=1 -overlay /verif/replays/C04/VHarnessVerifyProofs_22d36a52_0/overlay.json -run ^TestVerifReplay_VHarnessVerifyProofs$ -v ./mint
