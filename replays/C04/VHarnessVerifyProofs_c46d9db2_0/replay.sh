#!/bin/sh
# replays this counterexample against the real build
cd /tmp/seedrepo_C04b && VERIF_SCRIPT=/verif/replays/C04/VHarnessVerifyProofs_c46d9db2_0/script.json VERIF_RAW_SALT=0 GOFLAGS=-mod=mod GOPROXY=off go test -vet=off -count=1 -overlay /verif/replays/C04/VHarnessVerifyProofs_c46d9db2_0/overlay.json -run ^TestVerifReplay_VHarnessVerifyProofs$ -v ./mint
