package mint

import (
	"testing"

	verifrt "github.com/elnosh/gonuts/verifrt"
)

func TestVerifReplay_VHarnessVerifyProofs(t *testing.T) {
	if verifrt.Run("VHarnessVerifyProofs", VHarnessVerifyProofs) {
		t.Fail()
	}
}
