package mint

import (
	"testing"

	verifrt "github.com/elnosh/gonuts/verifrt"
)

func TestVerifReplay_VHarnessMeltC05Polls(t *testing.T) {
	if verifrt.Run("VHarnessMeltC05Polls", VHarnessMeltC05Polls) {
		t.Fail()
	}
}
