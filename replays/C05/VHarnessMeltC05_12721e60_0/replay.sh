#!/bin/sh
# replays this counterexample against the real build
cd /repo && VERIF_SCRIPT=/verif/replays/C05/VHarnessMeltC05_12721e60_0/script.json GOFLAGS=-mod=mod GOPROXY=off go test -vet=off -count=1 -overlay /verif/replays/C05/VHarnessMeltC05_12721e60_0/overlay.json -run ^TestVerifReplay_VHarnessMeltC05$ -v ./mint
