#!/bin/sh
# replays this counterexample against the real build
cd /tmp/seedrepo_C07f && VERIF_SCRIPT=/verif/replays/C05/VHarnessMeltC05_bc3bf7d1_0/script.json VERIF_RAW_SALT=0 GOFLAGS=-mod=mod GOPROXY=off go test -vet=off -count=1 -overlay /verif/replays/C05/VHarnessMeltC05_bc3bf7d1_0/overlay.json -run ^TestVerifReplay_VHarnessMeltC05$ -v ./mint
