package mint

import (
	"testing"

	verifrt "github.com/elnosh/gonuts/verifrt"
)

func TestVerifReplay_VHarnessMeltC05(t *testing.T) {
	if verifrt.Run("VHarnessMeltC05", VHarnessMeltC05) {
		t.Fail()
	}
}
