#!/bin/sh
# replays this counterexample against the real build
cd /tmp/seedrepo_C07f && VERIF_SCRIPT=/verif/replays/C05/VHarnessMeltC05_c6687b8b_0/script.json VERIF_RAW_SALT=0 GOFLAGS=-mod=mod GOPROXY=off go test -vet=off -count=1 -overlay /verif/replays/C05/VHarnessMeltC05_c6687b8b_0/overlay.json -run ^TestVerifReplay_VHarnessMeltC05$ -v ./mint
