#!/bin/sh
# replays this counterexample against the real build
cd /tmp/seedrepo_C05f && VERIF_SCRIPT=/verif/replays/C05/VHarnessSwapC01Fault_93feb964_0/script.json VERIF_RAW_SALT=0 GOFLAGS=-mod=mod GOPROXY=off go test -vet=off -count=1 -overlay /verif/replays/C05/VHarnessSwapC01Fault_93feb964_0/overlay.json -run ^TestVerifReplay_VHarnessSwapC01Fault$ -v ./mint
