package mint

import (
	"testing"

	verifrt "github.com/elnosh/gonuts/verifrt"
)

func TestVerifReplay_VHarnessSwapC01Fault(t *testing.T) {
	if verifrt.Run("VHarnessSwapC01Fault", VHarnessSwapC01Fault) {
		t.Fail()
	}
}
