#!/bin/sh
# replays this counterexample against the real build
cd /tmp/seedrepo_C06e && VERIF_SCRIPT=/verif/replays/C06/VHarnessMeltC06_d39b9f28_0/script.json VERIF_RAW_SALT=0 GOFLAGS=-mod=mod GOPROXY=off go test -vet=off -count=1 -overlay /verif/replays/C06/VHarnessMeltC06_d39b9f28_0/overlay.json -run ^TestVerifReplay_VHarnessMeltC06$ -v ./mint
