package mint

import (
	"testing"

	verifrt "github.com/elnosh/gonuts/verifrt"
)

func TestVerifReplay_VHarnessMeltC06(t *testing.T) {
	if verifrt.Run("VHarnessMeltC06", VHarnessMeltC06) {
		t.Fail()
	}
}
