#!/bin/sh
# replays this counterexample against the real build
cd /repo && VERIF_SCRIPT=/verif/replays/C06/VHarnessMintTokensC06_b449c9cc_0/script.json GOFLAGS=-mod=mod GOPROXY=off go test -vet=off -count=1 -overlay /verif/replays/C06/VHarnessMintTokensC06_b449c9cc_0/overlay.json -run ^TestVerifReplay_VHarnessMintTokensC06$ -v ./mint
