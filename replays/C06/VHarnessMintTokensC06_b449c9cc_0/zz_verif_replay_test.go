package mint

import (
	"testing"

	verifrt "github.com/elnosh/gonuts/verifrt"
)

func TestVerifReplay_VHarnessMintTokensC06(t *testing.T) {
	if verifrt.Run("VHarnessMintTokensC06", VHarnessMintTokensC06) {
		t.Fail()
	}
}
