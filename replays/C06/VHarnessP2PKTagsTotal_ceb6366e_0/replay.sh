#!/bin/sh
# replays this counterexample against the real build
cd /tmp/seedrepo_C06c && VERIF_SCRIPT=/verif/replays/C06/VHarnessP2PKTagsTotal_ceb6366e_0/script.json VERIF_RAW_SALT=0 GOFLAGS=-mod=mod GOPROXY=off go test -vet=off -count=1 -overlay /verif/replays/C06/VHarnessP2PKTagsTotal_ceb6366e_0/overlay.json -run ^TestVerifReplay_VHarnessP2PKTagsTotal$ -v ./cashu/nuts/nut11
