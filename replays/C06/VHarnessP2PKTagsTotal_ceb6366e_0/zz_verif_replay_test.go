package nut11

import (
	"testing"

	verifrt "github.com/elnosh/gonuts/verifrt"
)

func TestVerifReplay_VHarnessP2PKTagsTotal(t *testing.T) {
	if verifrt.Run("VHarnessP2PKTagsTotal", VHarnessP2PKTagsTotal) {
		t.Fail()
	}
}
