#!/bin/sh
# replays this counterexample against the real build
cd /repo && VERIF_SCRIPT=/verif/replays/C06/VHarnessQueryC06_606dfead_0/script.json GOFLAGS=-mod=mod GOPROXY=off go test -vet=off -count=1 -overlay /verif/replays/C06/VHarnessQueryC06_606dfead_0/overlay.json -run ^TestVerifReplay_VHarnessQueryC06$ -v ./mint
