package mint

import (
	"testing"

	verifrt "github.com/elnosh/gonuts/verifrt"
)

func TestVerifReplay_VHarnessQueryC06(t *testing.T) {
	if verifrt.Run("VHarnessQueryC06", VHarnessQueryC06) {
		t.Fail()
	}
}
