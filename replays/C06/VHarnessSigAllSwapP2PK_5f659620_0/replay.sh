#!/bin/sh
# replays this counterexample against the real build
cd /tmp/seedrepo_C06b && VERIF_SCRIPT=/verif/replays/C06/VHarnessSigAllSwapP2PK_5f659620_0/script.json VERIF_RAW_SALT=0 GOFLAGS=-mod=mod GOPROXY=off go test -vet=off -count=1 -overlay /verif/replays/C06/VHarnessSigAllSwapP2PK_5f659620_0/overlay.json -run ^TestVerifReplay_VHarnessSigAllSwapP2PK$ -v ./mint
