#!/bin/sh
# replays this counterexample against the real build
cd /tmp/seedrepo_C06 && VERIF_SCRIPT=/verif/replays/C06/VHarnessSwapC06_27d263e2_0/script.json VERIF_RAW_SALT=0 GOFLAGS=-mod=mod GOPROXY=off go test -vet=off -count=1 -overlay /verif/replays/C06/VHarnessSwapC06_27d263e2_0/overlay.json -run ^TestVerifReplay_VHarnessSwapC06$ -v ./mint
