package mint

import (
	"testing"

	verifrt "github.com/elnosh/gonuts/verifrt"
)

func TestVerifReplay_VHarnessSwapC06(t *testing.T) {
	if verifrt.Run("VHarnessSwapC06", VHarnessSwapC06) {
		t.Fail()
	}
}
