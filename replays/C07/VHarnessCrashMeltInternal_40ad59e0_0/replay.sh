#!/bin/sh
# replays this counterexample against the real build
cd /tmp/seedonly_C03d_13097 && VERIF_SCRIPT=/verif/replays/C07/VHarnessCrashMeltInternal_40ad59e0_0/script.json VERIF_RAW_SALT=0 GOFLAGS=-mod=mod GOPROXY=off go test -vet=off -count=1 -overlay /verif/replays/C07/VHarnessCrashMeltInternal_40ad59e0_0/overlay.json -run ^TestVerifReplay_VHarnessCrashMeltInternal$ -v ./mint
