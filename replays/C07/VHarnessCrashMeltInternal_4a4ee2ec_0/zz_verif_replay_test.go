package mint

import (
	"testing"

	verifrt "github.com/elnosh/gonuts/verifrt"
)

func TestVerifReplay_VHarnessCrashMeltInternal(t *testing.T) {
	if verifrt.Run("VHarnessCrashMeltInternal", VHarnessCrashMeltInternal) {
		t.Fail()
	}
}
