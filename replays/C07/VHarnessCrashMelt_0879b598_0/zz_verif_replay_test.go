package mint

import (
	"testing"

	verifrt "github.com/elnosh/gonuts/verifrt"
)

func TestVerifReplay_VHarnessCrashMelt(t *testing.T) {
	if verifrt.Run("VHarnessCrashMelt", VHarnessCrashMelt) {
		t.Fail()
	}
}
