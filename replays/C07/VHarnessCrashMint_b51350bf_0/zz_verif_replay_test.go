package mint

import (
	"testing"

	verifrt "github.com/elnosh/gonuts/verifrt"
)

func TestVerifReplay_VHarnessCrashMint(t *testing.T) {
	if verifrt.Run("VHarnessCrashMint", VHarnessCrashMint) {
		t.Fail()
	}
}
