package mint

import (
	"testing"

	verifrt "github.com/elnosh/gonuts/verifrt"
)

func TestVerifReplay_VHarnessCrashPoll(t *testing.T) {
	if verifrt.Run("VHarnessCrashPoll", VHarnessCrashPoll) {
		t.Fail()
	}
}
