#!/bin/sh
# replays this counterexample against the real build
cd /tmp/seedrepo_C07d && VERIF_SCRIPT=/verif/replays/C07/VHarnessCrashPoll_88eea251_0/script.json VERIF_RAW_SALT=0 GOFLAGS=-mod=mod GOPROXY=off go test -vet=off -count=1 -overlay /verif/replays/C07/VHarnessCrashPoll_88eea251_0/overlay.json -run ^TestVerifReplay_VHarnessCrashPoll$ -v ./mint
