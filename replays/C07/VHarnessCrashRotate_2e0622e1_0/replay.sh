#!/bin/sh
# replays this counterexample against the real build
cd /tmp/seedrepo_C07b && VERIF_SCRIPT=/verif/replays/C07/VHarnessCrashRotate_2e0622e1_0/script.json VERIF_RAW_SALT=0 GOFLAGS=-mod=mod GOPROXY=off go test -vet=off -count=1 -overlay /verif/replays/C07/VHarnessCrashRotate_2e0622e1_0/overlay.json -run ^TestVerifReplay_VHarnessCrashRotate$ -v ./mint
