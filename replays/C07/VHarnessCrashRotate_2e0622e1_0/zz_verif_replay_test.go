package mint

import (
	"testing"

	verifrt "github.com/elnosh/gonuts/verifrt"
)

func TestVerifReplay_VHarnessCrashRotate(t *testing.T) {
	if verifrt.Run("VHarnessCrashRotate", VHarnessCrashRotate) {
		t.Fail()
	}
}
