#!/bin/sh
# replays this counterexample against the real build
cd /repo && VERIF_SCRIPT=/verif/replays/C07/VHarnessCrashSwap_063c9550_0/script.json GOFLAGS=-mod=mod GOPROXY=off go test -vet=off -count=1 -overlay /verif/replays/C07/VHarnessCrashSwap_063c9550_0/overlay.json -run ^TestVerifReplay_VHarnessCrashSwap$ -v ./mint
