package mint

import (
	"testing"

	verifrt "github.com/elnosh/gonuts/verifrt"
)

func TestVerifReplay_VHarnessCrashSwap(t *testing.T) {
	if verifrt.Run("VHarnessCrashSwap", VHarnessCrashSwap) {
		t.Fail()
	}
}
