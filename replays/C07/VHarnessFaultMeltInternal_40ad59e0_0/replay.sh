#!/bin/sh
# replays this counterexample against the real build
cd /tmp/seedrepo_C03d && VERIF_SCRIPT=/verif/replays/C07/VHarnessFaultMeltInternal_40ad59e0_0/script.json VERIF_RAW_SALT=0 GOFLAGS=-mod=mod GOPROXY=off go test -vet=off -count=1 -overlay /verif/replays/C07/VHarnessFaultMeltInternal_40ad59e0_0/overlay.json -run ^TestVerifReplay_VHarnessFaultMeltInternal$ -v ./mint
