package mint

import (
	"testing"

	verifrt "github.com/elnosh/gonuts/verifrt"
)

func TestVerifReplay_VHarnessFaultMeltInternal(t *testing.T) {
	if verifrt.Run("VHarnessFaultMeltInternal", VHarnessFaultMeltInternal) {
		t.Fail()
	}
}
