package mint

import (
	"testing"

	verifrt "github.com/elnosh/gonuts/verifrt"
)

func TestVerifReplay_VHarnessFaultMelt(t *testing.T) {
	if verifrt.Run("VHarnessFaultMelt", VHarnessFaultMelt) {
		t.Fail()
	}
}
