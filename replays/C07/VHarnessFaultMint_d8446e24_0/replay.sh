#!/bin/sh
# replays this counterexample against the real build
cd /tmp/seedrepo_C07 && VERIF_SCRIPT=/verif/replays/C07/VHarnessFaultMint_d8446e24_0/script.json VERIF_RAW_SALT=0 GOFLAGS=-mod=mod GOPROXY=off go test -vet=off -count=1 -overlay /verif/replays/C07/VHarnessFaultMint_d8446e24_0/overlay.json -run ^TestVerifReplay_VHarnessFaultMint$ -v ./mint
