package mint

import (
	"testing"

	verifrt "github.com/elnosh/gonuts/verifrt"
)

func TestVerifReplay_VHarnessFaultMint(t *testing.T) {
	if verifrt.Run("VHarnessFaultMint", VHarnessFaultMint) {
		t.Fail()
	}
}
