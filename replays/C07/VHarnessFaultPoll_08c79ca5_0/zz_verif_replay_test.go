package mint

import (
	"testing"

	verifrt "github.com/elnosh/gonuts/verifrt"
)

func TestVerifReplay_VHarnessFaultPoll(t *testing.T) {
	if verifrt.Run("VHarnessFaultPoll", VHarnessFaultPoll) {
		t.Fail()
	}
}
