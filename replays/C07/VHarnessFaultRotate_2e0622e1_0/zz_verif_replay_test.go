package mint

import (
	"testing"

	verifrt "github.com/elnosh/gonuts/verifrt"
)

func TestVerifReplay_VHarnessFaultRotate(t *testing.T) {
	if verifrt.Run("VHarnessFaultRotate", VHarnessFaultRotate) {
		t.Fail()
	}
}
