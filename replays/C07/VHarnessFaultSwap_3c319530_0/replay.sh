#!/bin/sh
# replays this counterexample against the real build
cd /tmp/seedrepo_C01c && VERIF_SCRIPT=/verif/replays/C07/VHarnessFaultSwap_3c319530_0/script.json VERIF_RAW_SALT=0 GOFLAGS=-mod=mod GOPROXY=off go test -vet=off -count=1 -overlay /verif/replays/C07/VHarnessFaultSwap_3c319530_0/overlay.json -run ^TestVerifReplay_VHarnessFaultSwap$ -v ./mint
