package mint

import (
	"testing"

	verifrt "github.com/elnosh/gonuts/verifrt"
)

func TestVerifReplay_VHarnessFaultSwap(t *testing.T) {
	if verifrt.Run("VHarnessFaultSwap", VHarnessFaultSwap) {
		t.Fail()
	}
}
