package wallet

import (
	"testing"

	verifrt "github.com/elnosh/gonuts/verifrt"
)

func TestVerifReplay_VHarnessWalletMelt(t *testing.T) {
	if verifrt.Run("VHarnessWalletMelt", VHarnessWalletMelt) {
		t.Fail()
	}
}
