#!/bin/sh
# replays this counterexample against the real build
cd /tmp/seedrepo_C08 && VERIF_SCRIPT=/verif/replays/C08/VHarnessWalletMelt_6480e5e6_0/script.json VERIF_RAW_SALT=0 GOFLAGS=-mod=mod GOPROXY=off go test -vet=off -count=1 -overlay /verif/replays/C08/VHarnessWalletMelt_6480e5e6_0/overlay.json -run ^TestVerifReplay_VHarnessWalletMelt$ -v ./wallet
