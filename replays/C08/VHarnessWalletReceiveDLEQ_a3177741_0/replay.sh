#!/bin/sh
# replays this counterexample against the real build
cd /tmp/seedrepo_C08e && VERIF_SCRIPT=/verif/replays/C08/VHarnessWalletReceiveDLEQ_a3177741_0/script.json VERIF_RAW_SALT=0 GOFLAGS=-mod=mod GOPROXY=off go test -vet=off -count=1 -overlay /verif/replays/C08/VHarnessWalletReceiveDLEQ_a3177741_0/overlay.json -run ^TestVerifReplay_VHarnessWalletReceiveDLEQ$ -v ./wallet
