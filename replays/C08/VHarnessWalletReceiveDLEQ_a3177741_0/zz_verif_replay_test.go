package wallet

import (
	"testing"

	verifrt "github.com/elnosh/gonuts/verifrt"
)

func TestVerifReplay_VHarnessWalletReceiveDLEQ(t *testing.T) {
	if verifrt.Run("VHarnessWalletReceiveDLEQ", VHarnessWalletReceiveDLEQ) {
		t.Fail()
	}
}
