#!/bin/sh
# replays this counterexample against the real build
cd /tmp/seedrepo_C09f && VERIF_SCRIPT=/verif/replays/C09/VHarnessLoadMint_6f2c4b8e_0/script.json VERIF_RAW_SALT=0 GOFLAGS=-mod=mod GOPROXY=off go test -vet=off -count=1 -overlay /verif/replays/C09/VHarnessLoadMint_6f2c4b8e_0/overlay.json -run ^TestVerifReplay_VHarnessLoadMint$ -v ./mint
