package mint

import (
	"testing"

	verifrt "github.com/elnosh/gonuts/verifrt"
)

func TestVerifReplay_VHarnessLoadMint(t *testing.T) {
	if verifrt.Run("VHarnessLoadMint", VHarnessLoadMint) {
		t.Fail()
	}
}
