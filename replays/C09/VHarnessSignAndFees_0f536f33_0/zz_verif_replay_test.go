package mint

import (
	"testing"

	verifrt "github.com/elnosh/gonuts/verifrt"
)

func TestVerifReplay_VHarnessSignAndFees(t *testing.T) {
	if verifrt.Run("VHarnessSignAndFees", VHarnessSignAndFees) {
		t.Fail()
	}
}
