#!/bin/sh
# replays this counterexample against the real build
cd /tmp/seedrepo_C09b && VERIF_SCRIPT=/verif/replays/C09/VHarnessSignAndFees_b0a2643a_0/script.json VERIF_RAW_SALT=0 GOFLAGS=-mod=mod GOPROXY=off go test -vet=off -count=1 -overlay /verif/replays/C09/VHarnessSignAndFees_b0a2643a_0/overlay.json -run ^TestVerifReplay_VHarnessSignAndFees$ -v ./mint
