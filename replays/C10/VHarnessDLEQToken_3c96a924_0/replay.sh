#!/bin/sh
# replays this counterexample against the real build
cd /tmp/seedrepo_C10b && VERIF_SCRIPT=/verif/replays/C10/VHarnessDLEQToken_3c96a924_0/script.json VERIF_RAW_SALT=0 GOFLAGS=-mod=mod GOPROXY=off go test -vet=off -count=1 -overlay /verif/replays/C10/VHarnessDLEQToken_3c96a924_0/overlay.json -run ^TestVerifReplay_VHarnessDLEQToken$ -v ./cashu/nuts/nut12
