package nut12

import (
	"testing"

	verifrt "github.com/elnosh/gonuts/verifrt"
)

func TestVerifReplay_VHarnessDLEQToken(t *testing.T) {
	if verifrt.Run("VHarnessDLEQToken", VHarnessDLEQToken) {
		t.Fail()
	}
}
