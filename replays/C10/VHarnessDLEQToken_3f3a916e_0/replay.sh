#!/bin/sh
# replays this counterexample against the real build
cd /tmp/dbg_C10 && VERIF_SCRIPT=/verif/replays/C10/VHarnessDLEQToken_3f3a916e_0/script.json VERIF_RAW_SALT=0 GOFLAGS=-mod=mod GOPROXY=off go test -vet=off -count=1 -overlay /verif/replays/C10/VHarnessDLEQToken_3f3a916e_0/overlay.json -run ^TestVerifReplay_VHarnessDLEQToken$ -v ./cashu/nuts/nut12
