#!/bin/sh
# replays this counterexample against the real build
cd /tmp/seedrepo_C10b && VERIF_SCRIPT=/verif/replays/C10/VHarnessDLEQWallet_f8ad1be2_0/script.json VERIF_RAW_SALT=0 GOFLAGS=-mod=mod GOPROXY=off go test -vet=off -count=1 -overlay /verif/replays/C10/VHarnessDLEQWallet_f8ad1be2_0/overlay.json -run ^TestVerifReplay_VHarnessDLEQWallet$ -v ./cashu/nuts/nut12
