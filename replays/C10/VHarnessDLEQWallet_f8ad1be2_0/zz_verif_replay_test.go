package nut12

import (
	"testing"

	verifrt "github.com/elnosh/gonuts/verifrt"
)

func TestVerifReplay_VHarnessDLEQWallet(t *testing.T) {
	if verifrt.Run("VHarnessDLEQWallet", VHarnessDLEQWallet) {
		t.Fail()
	}
}
