#!/bin/sh
# replays this counterexample against the real build
cd /repo && VERIF_SCRIPT=/verif/replays/C11/VHarnessGenerateKeyset_0899338c_0/script.json GOFLAGS=-mod=mod GOPROXY=off go test -vet=off -count=1 -overlay /verif/replays/C11/VHarnessGenerateKeyset_0899338c_0/overlay.json -run ^TestVerifReplay_VHarnessGenerateKeyset$ -v ./crypto
