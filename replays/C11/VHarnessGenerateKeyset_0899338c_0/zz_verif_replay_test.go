package crypto

import (
	"testing"

	verifrt "github.com/elnosh/gonuts/verifrt"
)

func TestVerifReplay_VHarnessGenerateKeyset(t *testing.T) {
	if verifrt.Run("VHarnessGenerateKeyset", VHarnessGenerateKeyset) {
		t.Fail()
	}
}
