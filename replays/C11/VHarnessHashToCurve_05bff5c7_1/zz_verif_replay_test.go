package crypto

import (
	"testing"

	verifrt "github.com/elnosh/gonuts/verifrt"
)

func TestVerifReplay_VHarnessHashToCurve(t *testing.T) {
	if verifrt.Run("VHarnessHashToCurve", VHarnessHashToCurve) {
		t.Fail()
	}
}
