#!/bin/sh
# replays this counterexample against the real build
cd /repo && VERIF_SCRIPT=/verif/replays/C11/VHarnessHashToCurve_05bff5c7_2/script.json GOFLAGS=-mod=mod GOPROXY=off go test -vet=off -count=1 -overlay /verif/replays/C11/VHarnessHashToCurve_05bff5c7_2/overlay.json -run ^TestVerifReplay_VHarnessHashToCurve$ -v ./crypto
