#!/bin/sh
# replays this counterexample against the real build
cd /repo && VERIF_SCRIPT=/verif/replays/C11/VHarnessKeysetId_cc76c84d_0/script.json GOFLAGS=-mod=mod GOPROXY=off go test -vet=off -count=1 -overlay /verif/replays/C11/VHarnessKeysetId_cc76c84d_0/overlay.json -run ^TestVerifReplay_VHarnessKeysetId$ -v ./crypto
