#!/bin/sh
# replays this counterexample against the real build
cd /tmp/seedrepo_C11e && VERIF_SCRIPT=/verif/replays/C11/VHarnessKeysetId_cc76c84d_0/script.json VERIF_RAW_SALT=0 GOFLAGS=-mod=mod GOPROXY=off go test -vet=off -count=1 -overlay /verif/replays/C11/VHarnessKeysetId_cc76c84d_0/overlay.json -run ^TestVerifReplay_VHarnessKeysetId$ -v ./crypto
