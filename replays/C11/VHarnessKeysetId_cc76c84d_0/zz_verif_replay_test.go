package crypto

import (
	"testing"

	verifrt "github.com/elnosh/gonuts/verifrt"
)

func TestVerifReplay_VHarnessKeysetId(t *testing.T) {
	if verifrt.Run("VHarnessKeysetId", VHarnessKeysetId) {
		t.Fail()
	}
}
