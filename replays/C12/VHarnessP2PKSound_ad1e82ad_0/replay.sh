#!/bin/sh
# replays this counterexample against the real build
cd /tmp/seedrepo_C12d && VERIF_SCRIPT=/verif/replays/C12/VHarnessP2PKSound_ad1e82ad_0/script.json VERIF_RAW_SALT=0 GOFLAGS=-mod=mod GOPROXY=off go test -vet=off -count=1 -overlay /verif/replays/C12/VHarnessP2PKSound_ad1e82ad_0/overlay.json -run ^TestVerifReplay_VHarnessP2PKSound$ -v ./cashu/nuts/nut11
