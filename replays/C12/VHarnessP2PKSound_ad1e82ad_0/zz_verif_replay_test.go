package nut11

import (
	"testing"

	verifrt "github.com/elnosh/gonuts/verifrt"
)

func TestVerifReplay_VHarnessP2PKSound(t *testing.T) {
	if verifrt.Run("VHarnessP2PKSound", VHarnessP2PKSound) {
		t.Fail()
	}
}
