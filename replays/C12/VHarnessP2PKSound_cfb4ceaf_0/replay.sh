#!/bin/sh
# replays this counterexample against the real build
cd /tmp/seedrepo_C12 && VERIF_SCRIPT=/verif/replays/C12/VHarnessP2PKSound_cfb4ceaf_0/script.json VERIF_RAW_SALT=0 GOFLAGS=-mod=mod GOPROXY=off go test -vet=off -count=1 -overlay /verif/replays/C12/VHarnessP2PKSound_cfb4ceaf_0/overlay.json -run ^TestVerifReplay_VHarnessP2PKSound$ -v ./cashu/nuts/nut11
