#!/bin/sh
# replays this counterexample against the real build
cd /repo && VERIF_SCRIPT=/verif/replays/C12/VHarnessSigAllPosition_207d4a66_0/script.json GOFLAGS=-mod=mod GOPROXY=off go test -vet=off -count=1 -overlay /verif/replays/C12/VHarnessSigAllPosition_207d4a66_0/overlay.json -run ^TestVerifReplay_VHarnessSigAllPosition$ -v ./cashu/nuts/nut11
