package nut11

import (
	"testing"

	verifrt "github.com/elnosh/gonuts/verifrt"
)

func TestVerifReplay_VHarnessSigAllPosition(t *testing.T) {
	if verifrt.Run("VHarnessSigAllPosition", VHarnessSigAllPosition) {
		t.Fail()
	}
}
