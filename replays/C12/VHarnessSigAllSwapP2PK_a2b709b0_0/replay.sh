#!/bin/sh
# replays this counterexample against the real build
cd /tmp/seedrepo_C12b && VERIF_SCRIPT=/verif/replays/C12/VHarnessSigAllSwapP2PK_a2b709b0_0/script.json VERIF_RAW_SALT=0 GOFLAGS=-mod=mod GOPROXY=off go test -vet=off -count=1 -overlay /verif/replays/C12/VHarnessSigAllSwapP2PK_a2b709b0_0/overlay.json -run ^TestVerifReplay_VHarnessSigAllSwapP2PK$ -v ./mint
