package mint

import (
	"testing"

	verifrt "github.com/elnosh/gonuts/verifrt"
)

func TestVerifReplay_VHarnessSigAllSwapP2PK(t *testing.T) {
	if verifrt.Run("VHarnessSigAllSwapP2PK", VHarnessSigAllSwapP2PK) {
		t.Fail()
	}
}
