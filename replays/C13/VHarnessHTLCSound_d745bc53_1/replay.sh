#!/bin/sh
# replays this counterexample against the real build
cd /repo && VERIF_SCRIPT=/verif/replays/C13/VHarnessHTLCSound_d745bc53_1/script.json GOFLAGS=-mod=mod GOPROXY=off go test -vet=off -count=1 -overlay /verif/replays/C13/VHarnessHTLCSound_d745bc53_1/overlay.json -run ^TestVerifReplay_VHarnessHTLCSound$ -v ./cashu/nuts/nut14
