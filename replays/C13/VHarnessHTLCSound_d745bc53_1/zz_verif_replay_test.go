package nut14

import (
	"testing"

	verifrt "github.com/elnosh/gonuts/verifrt"
)

func TestVerifReplay_VHarnessHTLCSound(t *testing.T) {
	if verifrt.Run("VHarnessHTLCSound", VHarnessHTLCSound) {
		t.Fail()
	}
}
