#!/bin/sh
# replays this counterexample against the real build
cd /repo && VERIF_SCRIPT=/verif/replays/C13/VHarnessNut10Deserialize_43a34a9e_1/script.json VERIF_RAW_SALT=2 GOFLAGS=-mod=mod GOPROXY=off go test -vet=off -count=1 -overlay /verif/replays/C13/VHarnessNut10Deserialize_43a34a9e_1/overlay.json -run ^TestVerifReplay_VHarnessNut10Deserialize$ -v ./cashu/nuts/nut10
