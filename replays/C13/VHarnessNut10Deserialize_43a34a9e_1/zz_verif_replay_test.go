package nut10

import (
	"testing"

	verifrt "github.com/elnosh/gonuts/verifrt"
)

func TestVerifReplay_VHarnessNut10Deserialize(t *testing.T) {
	if verifrt.Run("VHarnessNut10Deserialize", VHarnessNut10Deserialize) {
		t.Fail()
	}
}
