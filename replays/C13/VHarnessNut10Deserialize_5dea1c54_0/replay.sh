#!/bin/sh
# replays this counterexample against the real build
cd /tmp/seedrepo_C13e && VERIF_SCRIPT=/verif/replays/C13/VHarnessNut10Deserialize_5dea1c54_0/script.json VERIF_RAW_SALT=0 GOFLAGS=-mod=mod GOPROXY=off go test -vet=off -count=1 -overlay /verif/replays/C13/VHarnessNut10Deserialize_5dea1c54_0/overlay.json -run ^TestVerifReplay_VHarnessNut10Deserialize$ -v ./cashu/nuts/nut10
