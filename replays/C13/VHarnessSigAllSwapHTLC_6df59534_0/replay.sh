#!/bin/sh
# replays this counterexample against the real build
cd /tmp/seedrepo_C13b && VERIF_SCRIPT=/verif/replays/C13/VHarnessSigAllSwapHTLC_6df59534_0/script.json VERIF_RAW_SALT=0 GOFLAGS=-mod=mod GOPROXY=off go test -vet=off -count=1 -overlay /verif/replays/C13/VHarnessSigAllSwapHTLC_6df59534_0/overlay.json -run ^TestVerifReplay_VHarnessSigAllSwapHTLC$ -v ./mint
