package mint

import (
	"testing"

	verifrt "github.com/elnosh/gonuts/verifrt"
)

func TestVerifReplay_VHarnessSigAllSwapHTLC(t *testing.T) {
	if verifrt.Run("VHarnessSigAllSwapHTLC", VHarnessSigAllSwapHTLC) {
		t.Fail()
	}
}
