package cashu

import (
	"testing"

	verifrt "github.com/elnosh/gonuts/verifrt"
)

func TestVerifReplay_VHarnessDecodeAny(t *testing.T) {
	if verifrt.Run("VHarnessDecodeAny", VHarnessDecodeAny) {
		t.Fail()
	}
}
