#!/bin/sh
# replays this counterexample against the real build
cd /tmp/seedrepo_C14 && VERIF_SCRIPT=/verif/replays/C14/VHarnessDecodeAny_9865b56b_0/script.json VERIF_RAW_SALT=0 GOFLAGS=-mod=mod GOPROXY=off go test -vet=off -count=1 -overlay /verif/replays/C14/VHarnessDecodeAny_9865b56b_0/overlay.json -run ^TestVerifReplay_VHarnessDecodeAny$ -v ./cashu
