package cashu

import (
	"testing"

	verifrt "github.com/elnosh/gonuts/verifrt"
)

func TestVerifReplay_VHarnessTokenRoundTrip3(t *testing.T) {
	if verifrt.Run("VHarnessTokenRoundTrip3", VHarnessTokenRoundTrip3) {
		t.Fail()
	}
}
