#!/bin/sh
# replays this counterexample against the real build
cd /tmp/seedrepo_C14g && VERIF_SCRIPT=/verif/replays/C14/VHarnessTokenRoundTrip_34a4f9c8_0/script.json VERIF_RAW_SALT=0 GOFLAGS=-mod=mod GOPROXY=off go test -vet=off -count=1 -overlay /verif/replays/C14/VHarnessTokenRoundTrip_34a4f9c8_0/overlay.json -run ^TestVerifReplay_VHarnessTokenRoundTrip$ -v ./cashu
