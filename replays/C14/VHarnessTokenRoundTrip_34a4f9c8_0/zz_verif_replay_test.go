package cashu

import (
	"testing"

	verifrt "github.com/elnosh/gonuts/verifrt"
)

func TestVerifReplay_VHarnessTokenRoundTrip(t *testing.T) {
	if verifrt.Run("VHarnessTokenRoundTrip", VHarnessTokenRoundTrip) {
		t.Fail()
	}
}
