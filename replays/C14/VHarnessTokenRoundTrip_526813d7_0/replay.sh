#!/bin/sh
# replays this counterexample against the real build
cd /repo && VERIF_SCRIPT=/verif/replays/C14/VHarnessTokenRoundTrip_526813d7_0/script.json VERIF_RAW_SALT=2 GOFLAGS=-mod=mod GOPROXY=off go test -vet=off -count=1 -overlay /verif/replays/C14/VHarnessTokenRoundTrip_526813d7_0/overlay.json -run ^TestVerifReplay_VHarnessTokenRoundTrip$ -v ./cashu
