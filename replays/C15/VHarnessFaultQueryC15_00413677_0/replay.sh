#!/bin/sh
# replays this counterexample against the real build
cd /tmp/seedrepo_C15d && VERIF_SCRIPT=/verif/replays/C15/VHarnessFaultQueryC15_00413677_0/script.json VERIF_RAW_SALT=0 GOFLAGS=-mod=mod GOPROXY=off go test -vet=off -count=1 -overlay /verif/replays/C15/VHarnessFaultQueryC15_00413677_0/overlay.json -run ^TestVerifReplay_VHarnessFaultQueryC15$ -v ./mint
