package mint

import (
	"testing"

	verifrt "github.com/elnosh/gonuts/verifrt"
)

func TestVerifReplay_VHarnessFaultQueryC15(t *testing.T) {
	if verifrt.Run("VHarnessFaultQueryC15", VHarnessFaultQueryC15) {
		t.Fail()
	}
}
