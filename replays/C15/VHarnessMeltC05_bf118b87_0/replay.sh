#!/bin/sh
# replays this counterexample against the real build
cd /tmp/seedrepo_C15b && VERIF_SCRIPT=/verif/replays/C15/VHarnessMeltC05_bf118b87_0/script.json VERIF_RAW_SALT=0 GOFLAGS=-mod=mod GOPROXY=off go test -vet=off -count=1 -overlay /verif/replays/C15/VHarnessMeltC05_bf118b87_0/overlay.json -run ^TestVerifReplay_VHarnessMeltC05$ -v ./mint
