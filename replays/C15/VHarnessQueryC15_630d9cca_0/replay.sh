#!/bin/sh
# replays this counterexample against the real build
cd /tmp/seedrepo_C15 && VERIF_SCRIPT=/verif/replays/C15/VHarnessQueryC15_630d9cca_0/script.json VERIF_RAW_SALT=0 GOFLAGS=-mod=mod GOPROXY=off go test -vet=off -count=1 -overlay /verif/replays/C15/VHarnessQueryC15_630d9cca_0/overlay.json -run ^TestVerifReplay_VHarnessQueryC15$ -v ./mint
