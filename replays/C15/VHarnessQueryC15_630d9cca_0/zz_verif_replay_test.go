package mint

import (
	"testing"

	verifrt "github.com/elnosh/gonuts/verifrt"
)

func TestVerifReplay_VHarnessQueryC15(t *testing.T) {
	if verifrt.Run("VHarnessQueryC15", VHarnessQueryC15) {
		t.Fail()
	}
}
