#!/bin/sh
# replays this counterexample against the real build
cd /tmp/seedrepo_C15f && VERIF_SCRIPT=/verif/replays/C15/VHarnessStorageLists_d11e7465_0/script.json VERIF_RAW_SALT=0 GOFLAGS=-mod=mod GOPROXY=off go test -vet=off -count=1 -overlay /verif/replays/C15/VHarnessStorageLists_d11e7465_0/overlay.json -run ^TestVerifReplay_VHarnessStorageLists$ -v ./mint/storage/sqlite
