package sqlite

import (
	"testing"

	verifrt "github.com/elnosh/gonuts/verifrt"
)

func TestVerifReplay_VHarnessStorageLists(t *testing.T) {
	if verifrt.Run("VHarnessStorageLists", VHarnessStorageLists) {
		t.Fail()
	}
}
