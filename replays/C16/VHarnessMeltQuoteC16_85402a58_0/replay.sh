#!/bin/sh
# replays this counterexample against the real build
cd /tmp/seedrepo_C16 && VERIF_SCRIPT=/verif/replays/C16/VHarnessMeltQuoteC16_85402a58_0/script.json VERIF_RAW_SALT=0 GOFLAGS=-mod=mod GOPROXY=off go test -vet=off -count=1 -overlay /verif/replays/C16/VHarnessMeltQuoteC16_85402a58_0/overlay.json -run ^TestVerifReplay_VHarnessMeltQuoteC16$ -v ./mint
