package mint

import (
	"testing"

	verifrt "github.com/elnosh/gonuts/verifrt"
)

func TestVerifReplay_VHarnessMeltQuoteC16(t *testing.T) {
	if verifrt.Run("VHarnessMeltQuoteC16", VHarnessMeltQuoteC16) {
		t.Fail()
	}
}
