#!/bin/sh
# replays this counterexample against the real build
cd /tmp/seedrepo_C16d && VERIF_SCRIPT=/verif/replays/C16/VHarnessMintInfoC16_73cfdda2_0/script.json VERIF_RAW_SALT=0 GOFLAGS=-mod=mod GOPROXY=off go test -vet=off -count=1 -overlay /verif/replays/C16/VHarnessMintInfoC16_73cfdda2_0/overlay.json -run ^TestVerifReplay_VHarnessMintInfoC16$ -v ./mint
