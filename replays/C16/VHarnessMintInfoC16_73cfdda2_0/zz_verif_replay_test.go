package mint

import (
	"testing"

	verifrt "github.com/elnosh/gonuts/verifrt"
)

func TestVerifReplay_VHarnessMintInfoC16(t *testing.T) {
	if verifrt.Run("VHarnessMintInfoC16", VHarnessMintInfoC16) {
		t.Fail()
	}
}
