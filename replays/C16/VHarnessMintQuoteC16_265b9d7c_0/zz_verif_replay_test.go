package mint

import (
	"testing"

	verifrt "github.com/elnosh/gonuts/verifrt"
)

func TestVerifReplay_VHarnessMintQuoteC16(t *testing.T) {
	if verifrt.Run("VHarnessMintQuoteC16", VHarnessMintQuoteC16) {
		t.Fail()
	}
}
