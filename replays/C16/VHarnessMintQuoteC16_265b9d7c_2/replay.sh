#!/bin/sh
# replays this counterexample against the real build
cd /repo && VERIF_SCRIPT=/verif/replays/C16/VHarnessMintQuoteC16_265b9d7c_2/script.json GOFLAGS=-mod=mod GOPROXY=off go test -vet=off -count=1 -overlay /verif/replays/C16/VHarnessMintQuoteC16_265b9d7c_2/overlay.json -run ^TestVerifReplay_VHarnessMintQuoteC16$ -v ./mint
