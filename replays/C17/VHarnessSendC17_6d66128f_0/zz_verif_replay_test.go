package wallet

import (
	"testing"

	verifrt "github.com/elnosh/gonuts/verifrt"
)

func TestVerifReplay_VHarnessSendC17(t *testing.T) {
	if verifrt.Run("VHarnessSendC17", VHarnessSendC17) {
		t.Fail()
	}
}
