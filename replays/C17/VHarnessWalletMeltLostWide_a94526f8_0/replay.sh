#!/bin/sh
# replays this counterexample against the real build
cd /repo && VERIF_SCRIPT=/verif/replays/C17/VHarnessWalletMeltLostWide_a94526f8_0/script.json VERIF_RAW_SALT=0 GOFLAGS=-mod=mod GOPROXY=off go test -vet=off -count=1 -overlay /verif/replays/C17/VHarnessWalletMeltLostWide_a94526f8_0/overlay.json -run ^TestVerifReplay_VHarnessWalletMeltLostWide$ -v ./wallet
