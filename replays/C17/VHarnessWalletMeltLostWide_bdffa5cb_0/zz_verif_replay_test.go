package wallet

import (
	"testing"

	verifrt "github.com/elnosh/gonuts/verifrt"
)

func TestVerifReplay_VHarnessWalletMeltLostWide(t *testing.T) {
	if verifrt.Run("VHarnessWalletMeltLostWide", VHarnessWalletMeltLostWide) {
		t.Fail()
	}
}
