#!/bin/sh
# replays this counterexample against the real build
cd /repo && VERIF_SCRIPT=/verif/replays/C17/VHarnessWalletMeltLost_8a95c8e2_0/script.json VERIF_RAW_SALT=0 GOFLAGS=-mod=mod GOPROXY=off go test -vet=off -count=1 -overlay /verif/replays/C17/VHarnessWalletMeltLost_8a95c8e2_0/overlay.json -run ^TestVerifReplay_VHarnessWalletMeltLost$ -v ./wallet
