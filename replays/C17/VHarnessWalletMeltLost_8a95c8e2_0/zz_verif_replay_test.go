package wallet

import (
	"testing"

	verifrt "github.com/elnosh/gonuts/verifrt"
)

func TestVerifReplay_VHarnessWalletMeltLost(t *testing.T) {
	if verifrt.Run("VHarnessWalletMeltLost", VHarnessWalletMeltLost) {
		t.Fail()
	}
}
