#!/bin/sh
# replays this counterexample against the real build
cd /tmp/seedrepo_C17d && VERIF_SCRIPT=/verif/replays/C17/VHarnessWalletMeltLost_faae50e6_0/script.json VERIF_RAW_SALT=0 GOFLAGS=-mod=mod GOPROXY=off go test -vet=off -count=1 -overlay /verif/replays/C17/VHarnessWalletMeltLost_faae50e6_0/overlay.json -run ^TestVerifReplay_VHarnessWalletMeltLost$ -v ./wallet
