package wallet

import (
	"testing"

	verifrt "github.com/elnosh/gonuts/verifrt"
)

func TestVerifReplay_VHarnessWalletReclaim(t *testing.T) {
	if verifrt.Run("VHarnessWalletReclaim", VHarnessWalletReclaim) {
		t.Fail()
	}
}
