#!/bin/sh
# replays this counterexample against the real build
cd /tmp/seedrepo_C18c && VERIF_SCRIPT=/verif/replays/C18/VHarnessSendMixed3_7e686360_0/script.json VERIF_RAW_SALT=0 GOFLAGS=-mod=mod GOPROXY=off go test -vet=off -count=1 -overlay /verif/replays/C18/VHarnessSendMixed3_7e686360_0/overlay.json -run ^TestVerifReplay_VHarnessSendMixed3$ -v ./wallet
