package wallet

import (
	"testing"

	verifrt "github.com/elnosh/gonuts/verifrt"
)

func TestVerifReplay_VHarnessSendMixed3(t *testing.T) {
	if verifrt.Run("VHarnessSendMixed3", VHarnessSendMixed3) {
		t.Fail()
	}
}
