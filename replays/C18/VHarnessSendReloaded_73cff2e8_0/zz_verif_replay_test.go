package wallet

import (
	"testing"

	verifrt "github.com/elnosh/gonuts/verifrt"
)

func TestVerifReplay_VHarnessSendReloaded(t *testing.T) {
	if verifrt.Run("VHarnessSendReloaded", VHarnessSendReloaded) {
		t.Fail()
	}
}
