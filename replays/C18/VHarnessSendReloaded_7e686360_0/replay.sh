#!/bin/sh
# replays this counterexample against the real build
cd /tmp/seedrepo_C18e && VERIF_SCRIPT=/verif/replays/C18/VHarnessSendReloaded_7e686360_0/script.json VERIF_RAW_SALT=0 GOFLAGS=-mod=mod GOPROXY=off go test -vet=off -count=1 -overlay /verif/replays/C18/VHarnessSendReloaded_7e686360_0/overlay.json -run ^TestVerifReplay_VHarnessSendReloaded$ -v ./wallet
