#!/bin/sh
# replays this counterexample against the real build
cd /tmp/seedrepo_C17c && VERIF_SCRIPT=/verif/replays/C18/VHarnessSend_6d66128f_0/script.json VERIF_RAW_SALT=0 GOFLAGS=-mod=mod GOPROXY=off go test -vet=off -count=1 -overlay /verif/replays/C18/VHarnessSend_6d66128f_0/overlay.json -run ^TestVerifReplay_VHarnessSend$ -v ./wallet
