package wallet

import (
	"testing"

	verifrt "github.com/elnosh/gonuts/verifrt"
)

func TestVerifReplay_VHarnessSend(t *testing.T) {
	if verifrt.Run("VHarnessSend", VHarnessSend) {
		t.Fail()
	}
}
