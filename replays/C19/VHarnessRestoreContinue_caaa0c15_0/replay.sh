#!/bin/sh
# replays this counterexample against the real build
cd /tmp/seedrepo_C19d && VERIF_SCRIPT=/verif/replays/C19/VHarnessRestoreContinue_caaa0c15_0/script.json VERIF_RAW_SALT=0 GOFLAGS=-mod=mod GOPROXY=off go test -vet=off -count=1 -overlay /verif/replays/C19/VHarnessRestoreContinue_caaa0c15_0/overlay.json -run ^TestVerifReplay_VHarnessRestoreContinue$ -v ./wallet
