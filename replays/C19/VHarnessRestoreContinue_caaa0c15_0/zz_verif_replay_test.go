package wallet

import (
	"testing"

	verifrt "github.com/elnosh/gonuts/verifrt"
)

func TestVerifReplay_VHarnessRestoreContinue(t *testing.T) {
	if verifrt.Run("VHarnessRestoreContinue", VHarnessRestoreContinue) {
		t.Fail()
	}
}
