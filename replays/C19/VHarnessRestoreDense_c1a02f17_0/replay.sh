#!/bin/sh
# replays this counterexample against the real build
cd /tmp/seedrepo_C19c && VERIF_SCRIPT=/verif/replays/C19/VHarnessRestoreDense_c1a02f17_0/script.json VERIF_RAW_SALT=0 GOFLAGS=-mod=mod GOPROXY=off go test -vet=off -count=1 -overlay /verif/replays/C19/VHarnessRestoreDense_c1a02f17_0/overlay.json -run ^TestVerifReplay_VHarnessRestoreDense$ -v ./wallet
