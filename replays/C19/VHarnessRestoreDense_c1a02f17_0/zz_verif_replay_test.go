package wallet

import (
	"testing"

	verifrt "github.com/elnosh/gonuts/verifrt"
)

func TestVerifReplay_VHarnessRestoreDense(t *testing.T) {
	if verifrt.Run("VHarnessRestoreDense", VHarnessRestoreDense) {
		t.Fail()
	}
}
