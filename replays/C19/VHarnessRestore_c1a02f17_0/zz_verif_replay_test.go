package wallet

import (
	"testing"

	verifrt "github.com/elnosh/gonuts/verifrt"
)

func TestVerifReplay_VHarnessRestore(t *testing.T) {
	if verifrt.Run("VHarnessRestore", VHarnessRestore) {
		t.Fail()
	}
}
