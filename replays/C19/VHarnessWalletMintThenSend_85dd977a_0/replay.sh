#!/bin/sh
# replays this counterexample against the real build
cd /tmp/seedrepo_C19 && VERIF_SCRIPT=/verif/replays/C19/VHarnessWalletMintThenSend_85dd977a_0/script.json VERIF_RAW_SALT=0 GOFLAGS=-mod=mod GOPROXY=off go test -vet=off -count=1 -overlay /verif/replays/C19/VHarnessWalletMintThenSend_85dd977a_0/overlay.json -run ^TestVerifReplay_VHarnessWalletMintThenSend$ -v ./wallet
