package wallet

import (
	"testing"

	verifrt "github.com/elnosh/gonuts/verifrt"
)

func TestVerifReplay_VHarnessWalletMintThenSend(t *testing.T) {
	if verifrt.Run("VHarnessWalletMintThenSend", VHarnessWalletMintThenSend) {
		t.Fail()
	}
}
