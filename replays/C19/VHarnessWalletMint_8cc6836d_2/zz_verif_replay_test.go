package wallet

import (
	"testing"

	verifrt "github.com/elnosh/gonuts/verifrt"
)

func TestVerifReplay_VHarnessWalletMint(t *testing.T) {
	if verifrt.Run("VHarnessWalletMint", VHarnessWalletMint) {
		t.Fail()
	}
}
