#!/bin/sh
# replays this counterexample against the real build
cd /tmp/seedrepo_C20c && VERIF_SCRIPT=/verif/replays/C20/VHarnessServerCheckstate_d1117f37_0/script.json VERIF_RAW_SALT=0 GOFLAGS=-mod=mod GOPROXY=off go test -vet=off -count=1 -overlay /verif/replays/C20/VHarnessServerCheckstate_d1117f37_0/overlay.json -run ^TestVerifReplay_VHarnessServerCheckstate$ -v ./mint
