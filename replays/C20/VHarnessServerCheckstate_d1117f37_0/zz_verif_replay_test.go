package mint

import (
	"testing"

	verifrt "github.com/elnosh/gonuts/verifrt"
)

func TestVerifReplay_VHarnessServerCheckstate(t *testing.T) {
	if verifrt.Run("VHarnessServerCheckstate", VHarnessServerCheckstate) {
		t.Fail()
	}
}
