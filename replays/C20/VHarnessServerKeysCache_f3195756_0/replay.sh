#!/bin/sh
# replays this counterexample against the real build
cd /repo && VERIF_SCRIPT=/verif/replays/C20/VHarnessServerKeysCache_f3195756_0/script.json VERIF_RAW_SALT=2 GOFLAGS=-mod=mod GOPROXY=off go test -vet=off -count=1 -overlay /verif/replays/C20/VHarnessServerKeysCache_f3195756_0/overlay.json -run ^TestVerifReplay_VHarnessServerKeysCache$ -v ./mint
