package mint

import (
	"testing"

	verifrt "github.com/elnosh/gonuts/verifrt"
)

func TestVerifReplay_VHarnessServerKeysCache(t *testing.T) {
	if verifrt.Run("VHarnessServerKeysCache", VHarnessServerKeysCache) {
		t.Fail()
	}
}
