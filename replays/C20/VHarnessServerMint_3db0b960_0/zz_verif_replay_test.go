package mint

import (
	"testing"

	verifrt "github.com/elnosh/gonuts/verifrt"
)

func TestVerifReplay_VHarnessServerMint(t *testing.T) {
	if verifrt.Run("VHarnessServerMint", VHarnessServerMint) {
		t.Fail()
	}
}
