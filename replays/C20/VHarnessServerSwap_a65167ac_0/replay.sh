#!/bin/sh
# replays this counterexample against the real build
cd /tmp/seedrepo_C20b && VERIF_SCRIPT=/verif/replays/C20/VHarnessServerSwap_a65167ac_0/script.json VERIF_RAW_SALT=0 GOFLAGS=-mod=mod GOPROXY=off go test -vet=off -count=1 -overlay /verif/replays/C20/VHarnessServerSwap_a65167ac_0/overlay.json -run ^TestVerifReplay_VHarnessServerSwap$ -v ./mint
