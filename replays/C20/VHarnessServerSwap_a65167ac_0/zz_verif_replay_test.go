package mint

import (
	"testing"

	verifrt "github.com/elnosh/gonuts/verifrt"
)

func TestVerifReplay_VHarnessServerSwap(t *testing.T) {
	if verifrt.Run("VHarnessServerSwap", VHarnessServerSwap) {
		t.Fail()
	}
}
