# development helper: run one harness in-process and print details
import sys, json, time, os, collections
sys.path.insert(0, '/verif'); sys.setrecursionlimit(20000)
from gosym import driver, core
from checks import props
prop, name = sys.argv[1], sys.argv[2]
limit = int(sys.argv[3]) if len(sys.argv) > 3 else 2000
tier = os.environ.get('VERIF_TIER', 'quick')
hs = props.PROPS[prop]['harnesses'](tier)
h = [x for x in hs if x.name == name][0]
ir = '/verif/.cache/dbg_ir.json'
os.makedirs('/verif/.cache', exist_ok=True)
print('frontend', round(driver.frontend(hs, ir), 2))
E = driver.make_engine(json.load(open(ir)), h, driver.compile_known(driver.load_known(prop), h.name))
if os.environ.get('PANICS'): E.panic_mode = 'obligation'
st = E.explore(h.entry, limit=limit)
print({k: st[k] for k in ('paths', 'queries', 'solver_s', 'instrs', 'wall_s', 'leftover', 'unknown')}, 'completed', st.get('completed'))
print('reached', st['reached'])
for k, v in st['asserts'].items(): print('  assert', v, k)
c = collections.Counter(u['msg'] for u in st['unsupported'])
for m, n in c.most_common(8): print('UNSUPPORTED x%d: %s' % (n, m))
for u in st['unsupported'][:1]:
    if 'tb' in u: print(u['tb'])
for v in st['violations'][:int(os.environ.get('NV', '3'))]:
    print('VIOLATION', v['kind'], v['label'], v.get('pos')); print('   script', json.dumps(v["script"])[:6000]); print('   trace', v['trace'][:30])
print('known', {k: v['count'] for k, v in st['known_hits'].items()})
