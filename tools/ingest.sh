#!/bin/bash
# usage: tools/ingest.sh <prop> <suffix>  - take a sub-agent's deliverables from /tmp/agd_<prop>/SEED into seeded/<prop><suffix>, drop its worktree
P=$1; S=$2; D=/verif/seeded/$P$S
mkdir -p $D && cp /tmp/agd_$P/SEED/patch.diff /tmp/agd_$P/SEED/zz_demo_test.go /tmp/agd_$P/SEED/notes.md $D/ && git -C /repo worktree remove --force /tmp/agd_$P && echo ingested $D && grep '^+++' $D/patch.diff
