# regenerates MANIFEST.json from checks/props.py (run from /verif)
import json, sys, os
sys.path.insert(0, '/verif')
from checks import props
allp = [json.loads(l) for l in open('/verif/properties.jsonl')]
checks = []
na = []
for p in allp:
    pid = p['id']
    spec = props.PROPS.get(pid)
    if spec is None or spec.get('not_applicable'):
        na.append(dict(property_id=pid, reason=(spec or {}).get('not_applicable', 'check not built yet (build phase in progress)')))
        continue
    checks.append(dict(
        property_id=pid,
        quick_cmd='./check %s --tier quick' % pid,
        thorough_cmd='./check %s --tier thorough' % pid,
        evidence_file='/verif/evidence/%s.json' % pid,
        replay_cmd_template='./check %s --replay {path}' % pid,
        engine='gosym',
        level_claimed=dict(category='other', text=spec['level'] + ' — bounded: holds for every value inside the bounds listed in the evidence file; nothing is claimed outside them',
                           design_ref=spec.get('design_ref', 'DESIGN.md section 7, ' + pid)),
        level_note='trusted base: the gosym SSA interpreter, the environment models of DESIGN.md section 4 (listed per run in the evidence), z3; '
                   'every reported violation was first reproduced against the real build (go test -overlay). ' + spec.get('note', ''),
        technique='symbolic execution of the real Go SSA (go/ssa) with SMT (z3) deciding every branch and assertion; counterexamples replayed natively'))
m = dict(version=1,
    setup_cmd='cd /verif && sh tools/setup.sh',
    hooks=dict(guard='verif', enable='none needed: harness files are injected with go/packages overlays (analysis) and `go test -overlay` (replay); nothing is compiled into /repo and /repo is never written',
               baseline_off_cmd='cd /repo && GOFLAGS=-mod=mod GOPROXY=off go test -vet=off -count=1 ./...', source_commits=[], add_only=True),
    engines=[dict(name='gosym', path='/verif/gosym', serves_properties=[c['property_id'] for c in checks],
                  kind_free_text='purpose-built symbolic executor for Go SSA (front end: golang.org/x/tools go/ssa -> JSON; engine: Python + z3 5.1), path exploration by decision replay, environment models for stdlib/secp256k1/database-sql/JSON, dual-mode harnesses replayed natively')],
    checks=checks,
    notes='fix: commits in /repo repair genuine defects found by these checks (see known_findings.json); no hook commits.',
    not_applicable=na)
json.dump(m, open('/verif/MANIFEST.json', 'w'), indent=1)
print('checks', [c['property_id'] for c in checks], 'na', [x['property_id'] for x in na])
