# (re)writes seeded/<id>/meta.json from the descriptions below and the confirm.log / check_*.log of tools/seedtest.sh
import json, os, re, glob
D = json.load(open('/verif/seeded/descriptions.json'))
for sid, (prop, chg, needs) in D.items():
    d = '/verif/seeded/' + sid
    if not os.path.isdir(d): continue
    conf = open(d + '/confirm.log').read() if os.path.exists(d + '/confirm.log') else ''
    m = re.search(r'confirm: demo_without=(\d+) .* suite_with=(\d+) .* demo_with=(\d+)', conf)
    checks = {}
    for f in glob.glob(d + '/check_*.log'):
        p = os.path.basename(f)[6:-4]
        txt = open(f).read()
        res = re.findall(r'^(C\d+: (?:HOLDS|VIOLATED|INCONCLUSIVE).*)$', txt, re.M)
        checks[p] = dict(result=res[-1] if res else 'no result line', violation_lines=len(re.findall(r'^VIOLATION', txt, re.M)))
    meta = dict(seed=sid, breaks_property=prop, change=chg, needs_to_manifest=needs,
                confirmed_by_me=dict(how='tools/seedtest.sh: scratch worktree of /repo HEAD; demo test without the change, build + pinned suite with the change, demo test with the change',
                                     demo_without_change_exit=int(m.group(1)) if m else None, build_and_suite_with_change_exit=int(m.group(2)) if m else None,
                                     demo_with_change_exit=int(m.group(3)) if m else None),
                checks_run_against_it=checks,
                demonstration='zz_demo_test.go (see its header for the package directory)', author='fresh sub-agent given only the property text and a scratch worktree', details='notes.md')
    json.dump(meta, open(d + '/meta.json', 'w'), indent=1)
print('ok')
