#!/bin/bash
# usage: tools/seedonly.sh <seed id|none> <property> [harness]   - development: one harness against a scratch worktree with the seed applied
ID=$1; P=$2; H=${3:-}
export GOFLAGS=-mod=mod GOPROXY=off
if [ "$ID" = none ]; then
  cd /verif; VERIF_DEV=1 timeout 3000 ./check $P --tier ${TIER:-quick} ${H:+--only $H} 2>&1 | grep -vE '^\[.*(exploring|native sample)' | tail -${TAIL:-15}; exit
fi
RW=/tmp/seedonly_${ID}_$$
git -C /repo worktree add -q $RW HEAD || exit 1
git -C $RW apply /verif/seeded/$ID/patch.diff || { echo "cannot apply"; git -C /repo worktree remove --force $RW; exit 1; }
cd /verif
VERIF_REPO=$RW timeout 3000 ./check $P --tier ${TIER:-quick} ${H:+--only $H} 2>&1 | grep -vE '^\[.*(exploring|native sample)' | tail -${TAIL:-15}
git -C /repo worktree remove --force $RW >/dev/null 2>&1
