#!/bin/bash
# usage: tools/seedtest.sh <seed id> <property> <demo package dir> [extra properties to run]
# 1. confirms the seeded change in a scratch worktree (builds, existing suite passes, demo fails with / passes without)
# 2. applies it to /repo, runs the quick check of the property, reverts
set -u
ID=$1; PROP=$2; PKG=$3; shift 3
export GOFLAGS=-mod=mod GOPROXY=off
SEED=/verif/seeded/$ID
WT=/tmp/seedwt_$ID
LOG=$SEED/confirm.log
if [ -z "${SKIP_CONFIRM:-}" ]; then
: > $LOG
git -C /repo worktree remove --force $WT >/dev/null 2>&1
git -C /repo worktree add -q $WT HEAD >>$LOG 2>&1
cd $WT
DEMO=$(ls $SEED/*_test.go | head -1)
cp $DEMO $PKG/zz_demo_test.go
echo "== demo WITHOUT change" >>$LOG
go test -vet=off -count=1 -run 'Demo' ./$PKG/ >>$LOG 2>&1; R0=$?
git apply $SEED/patch.diff >>$LOG 2>&1 || echo "PATCH DOES NOT APPLY" >>$LOG
echo "== build + existing suite WITH change" >>$LOG
rm $PKG/zz_demo_test.go
(go build ./... && go test -vet=off -count=1 ./cashu/... ./crypto/... ./mint/... ./wallet/...) >>$LOG 2>&1; R1=$?
cp $DEMO $PKG/zz_demo_test.go
echo "== demo WITH change" >>$LOG
go test -vet=off -count=1 -run 'Demo' ./$PKG/ >>$LOG 2>&1; R2=$?
cd /; git -C /repo worktree remove --force $WT >/dev/null 2>&1
echo "confirm: demo_without=$R0 (want 0) suite_with=$R1 (want 0) demo_with=$R2 (want !=0)" | tee -a $LOG
fi
# 3. the checks, against a scratch worktree with the change applied (equivalent to `git -C /repo apply`; keeps /repo untouched
#    so that other work can go on) - VERIF_REPO points the front end, the SQL schema reader and the replays at it
RW=/tmp/seedrepo_$ID
git -C /repo worktree remove --force $RW >/dev/null 2>&1
git -C /repo worktree add -q $RW HEAD >>$LOG 2>&1
git -C $RW apply $SEED/patch.diff || { echo "cannot apply"; exit 1; }
cd /verif
for P in $PROP "$@"; do
  VERIF_REPO=$RW timeout 3000 ./check $P --tier quick > $SEED/check_$P.log 2>&1
  echo "check $P exit=$? : $(grep -c '^VIOLATION' $SEED/check_$P.log) violation lines; $(grep -E 'HOLDS|VIOLATED|INCONCLUSIVE' $SEED/check_$P.log | tail -1)" | tee -a $LOG
done
git -C /repo worktree remove --force $RW >/dev/null 2>&1
