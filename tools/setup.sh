#!/bin/sh
# offline setup: build the front end, warm the Go build cache of the repository (incl. test binaries' deps)
set -e
export GOFLAGS=-mod=mod GOPROXY=off
cd /verif/frontend && go build -o /verif/bin/ssa2json .
cd /repo && go build ./... && go test -vet=off -count=1 -run '^$' ./cashu/... ./crypto/... ./mint/... ./wallet/... >/dev/null 2>&1 || true
python3-vt -c "import z3, jsonschema; print('z3', z3.get_version_string())"
